"""C02 - links are applied exactly where their definition matches."""
from collections import Counter

from . import gp, gpcheck, model as mdl
from .core import Violation
from .itp import inter_multiset, canon_atoms, canon_param

PID = "C02"
LEVEL = "exploration"
RULE = ("Hypothesis-generated link sets (orders 0,+n,-n,>,>>,<,<<,*,**; 2-4 residues; resname choices; "
        "per-atom resname/atype/label selections; replace; [edges]/[non-edges]/[patterns]; versions; "
        "dangling .itp interactions) x residue graphs with random residue names, judged by a brute-force "
        "matcher over all injective residue assignments (pbt/model.py); non-trivial = the brute force finds "
        ">=1 applicable site and >=1 (link, adjacent residue pair) where it does not apply; distinct = spec hash")
ASSUMPTIONS = ["induced residue-pattern matching is the meaning of 'connected as in the link's residue pattern'",
               "interactions listing the same atoms in reversed order are not 'the same atoms' (both outcomes accepted)",
               "cases whose outcome depends on link application order (inter-residue non-edges on link-made "
               "edges, competing replace values) are counted and not asserted",
               "the .itp reader pbt/itp.py"]
RULE += (' Links also come without a link-wide resname (atoms of one residue named, the others open), with force-field messages, as typed links with a plain counterpart and with "edge": false bonds declared under [ edges ] (.ff inputs), and as dangling terms on .itp atoms that share their name with another atom (told apart by atom number).')
BUDGET = {"quick": (16, 200), "thorough": (16, 5000)}


def strategy(tier):
    return gp.case(max_res=7, link_bias=True, explicit_links=True)


def compare_interactions(spec, written, model, clause_prefix="links"):
    want = mdl.expected_rows(model)
    got = inter_multiset(written["inter"])
    twins = mdl.twin_keys(model)
    twin_rows = set()
    for (sec, atoms, version) in twins:
        twin_rows.add((sec, canon_atoms(sec, atoms)))
    resid_of = {a["idx"]: a["resid"] for a in written["atoms"]}
    for sec in sorted(set(want) | set(got)):
        cw, cg = Counter(want.get(sec, [])), Counter(got.get(sec, []))
        if cw == cg:
            continue
        missing = cw - cg        # expected but absent
        extra = cg - cw          # present but unexplained
        # tolerate twins: rows on twin atom sets may appear once or twice
        missing = Counter({r: c for r, c in missing.items() if (sec, r[0]) not in twin_rows})
        extra = Counter({r: c for r, c in extra.items() if (sec, r[0]) not in twin_rows})
        if sec == "exclusions" and len({r["block"]["nrexcl"] for r in model.residues}) > 1:
            # blocks of different exclusion distance: exclusions are generated on top of the ones the blocks and
            # links list (C14 decides which); the listed ones are all there
            extra = Counter()
        if not missing and not extra:
            continue
        row = (list(missing) + list(extra))[0]
        cross = len({resid_of.get(a) for a in row[0]}) > 1
        kind = "missing" if missing else "unexplained"
        scope = "inter_residue" if cross else "intra_residue"
        raise Violation(f"{clause_prefix}:{kind}_{scope}_interaction",
                        f"[{sec}] expected-but-absent={list(missing)[:2]} present-but-unexplained={list(extra)[:2]}")


def check(spec, ctx):
    pre = mdl.expected(spec)
    if pre.invalid:
        from .core import Reject
        raise Reject(pre.invalid)
    run, written = gpcheck.execute(spec, ctx, clause="links")
    model = mdl.expected(spec)
    if model.undetermined:
        ctx.label("order_dependent_not_asserted")
        return
    compare_interactions(spec, written, model)
    # replaced attributes
    for idx, atom in enumerate(model.atoms, start=1):
        allowed = {atom["charge"]}
        if idx in model.charge_override:
            allowed = {rep["charge"] for _, rep in model.charge_override[idx] if "charge" in rep}
            allowed = allowed or {atom["charge"]}
        got = written["atoms"][idx - 1]["charge"] if idx <= len(written["atoms"]) else None
        if got is None or all(abs(got - a) > 1e-9 for a in allowed):
            raise Violation("links:replace", f"atom {idx} charge {got} not in {sorted(allowed)}")
        allowed_types = {atom["type"]}
        if idx in model.charge_override:
            allowed_types = {rep["atype"] for _, rep in model.charge_override[idx] if "atype" in rep} or allowed_types
        got_type = written["atoms"][idx - 1]["type"] if idx <= len(written["atoms"]) else None
        if got_type not in allowed_types:
            raise Violation("links:replace_type", f"atom {idx} type {got_type!r} not in {sorted(allowed_types)}")
    # cross-residue edges of the built molecule
    molecule = run.captured["molecule"]
    order = list(molecule.sorted_nodes)
    index = {node: i for i, node in enumerate(order, start=1)}
    resid_of = {i + 1: a["resid"] for i, a in enumerate(model.atoms)}
    got_edges = {frozenset((index[u], index[v])) for u, v in molecule.edges}
    got_cross = {e for e in got_edges if len({resid_of[a] for a in e}) > 1}
    want_cross = {e for e in model.edges if len({resid_of[a] for a in e}) > 1}
    # edges a link adds inside a residue (atoms the block does not bond) count as well; compared where R1 knows the
    # edges of every block exactly (.ff inputs only)
    if not any(f["kind"] == "itp" for f in spec["files"]):
        got_inner = got_edges - got_cross
        want_inner = {e for e in model.edges if len({resid_of[a] for a in e}) == 1}
        if got_inner != want_inner:
            raise Violation("links:edges_within_residues", f"missing={sorted(map(sorted, want_inner - got_inner))[:3]} "
                                                            f"unexplained={sorted(map(sorted, got_inner - want_inner))[:3]}")
    if got_cross != want_cross:
        raise Violation("links:edges", f"missing={sorted(map(sorted, want_cross - got_cross))[:3]} "
                                       f"unexplained={sorted(map(sorted, got_cross - want_cross))[:3]}")
    # classification
    n_must = len(model.matches)
    links = mdl.all_links(spec)
    if n_must:
        ctx.label("site_applied")
    if any(l.get("dangling") for l in links):
        ctx.label("dangling")
    if any(m["spec"].get("dangling") for m in model.matches):
        ctx.label("dangling_applied")
    if any(a.get("linktype") for _, _, a in spec["graph"]["edges"]):
        ctx.label("labelled_graph_edge")
    for m in model.matches:
        if any(e[2].get("linktype") for e in m["spec"]["edges"]):
            ctx.label("labelled_link_applied")
        if m["spec"]["non_edges"]:
            ctx.label("non_edge_link_applied")
        if m["spec"]["patterns"]:
            ctx.label("pattern_link_applied")
        if len(m["assign"]) > 2:
            ctx.label("three_plus_residue_link_applied")
    nres = len(model.residues)
    nedges = len(spec["graph"]["edges"])
    # a (link, edge) pair without application
    applied_pairs = set()
    for m in model.matches:
        applied_pairs.add(m["link"])
    not_applied = len(links) * max(nedges, 1) > len(model.matches)
    if links and not model.matches:
        ctx.label("no_site")
    ctx.nontrivial = bool(n_must >= 1 and links and not_applied and nres >= 2)
