"""C16 - the neighbour engine always reflects exactly the currently positioned residues."""
import itertools
import math

import numpy as np
import hypothesis.strategies as st

from .core import Violation, Reject, crash

PID = "C16"
LEVEL = "exploration"
RULE = ("generated operation histories (<=40 steps) over a NonBondEngine with 2-4 molecules x 1-6 nodes in a "
        "rectangular periodic box: add(start=True/False) on an unpositioned node, remove(subset incl. "
        "unpositioned nodes / whole molecule), concatenate, re-add, and queries get_point, update_positions_in_molecules, compute_force_point "
        "(with exclusions), pbc_min_dist; 8% of histories start from 5001 positioned dummies, place nodes before and after the "
        "start placement that opens a second search tree, remove some and ask for the force where they were. After every step the engine is compared with a dict model: "
        "positions, brute-force minimum-image 12-6 force (analytic and by numerical gradient), internal index "
        "views. non-trivial = history with a removal followed by a force query and >=1 pair interacting across "
        "a box face; distinct = spec hash")
ASSUMPTIONS = ["a force query returns inf when a positioned, non-excluded residue is closer than 0.1 nm; for an "
               "excluded residue inside 0.1 nm both inf and the finite force are accepted",
               "float tolerance: relative 1e-9 on forces (1e-5 for the numerical gradient), 1e-12 on positions"]
BUDGET = {"quick": (16, 120), "thorough": (16, 4000)}

SIGMAS = [0.3, 0.43, 0.6]


@st.composite
def _coord(draw, box, near_face=False):
    out = []
    for L in box:
        mode = draw(st.integers(0, 3))
        if mode == 0 or near_face:
            # near a face: within 0.35 nm of 0 or L
            d = draw(st.integers(1, 350)) / 1000.0
            out.append(d if draw(st.booleans()) else L - d)
        else:
            out.append(draw(st.integers(0, int(L * 1000) - 1)) / 1000.0)
    return out


@st.composite
def _strategy(draw):
    nmol = draw(st.integers(2, 4))
    sizes = [draw(st.integers(1, 6)) for _ in range(nmol)]
    types = [[draw(st.integers(0, 2)) for _ in range(s)] for s in sizes]
    box = [draw(st.sampled_from([3.0, 3.7, 4.5, 6.0])) for _ in range(3)]
    if draw(st.integers(0, 3)) == 0:
        # a thin box: one edge between the cut-off and twice the cut-off
        box[draw(st.integers(0, 2))] = draw(st.sampled_from([1.2, 1.5]))
    large = draw(st.integers(0, 11)) == 0
    ops = []
    if large:
        # a history that spreads the nodes of the molecules over both search trees before anything is
        # removed: placements into the first tree, a start placement (opens the second tree), further
        # placements, then removals and force queries where the removed residues were
        def add(start):
            return {"op": "add", "pick": draw(st.integers(0, 100)), "point": draw(_coord(box)), "start": start,
                    "near": False, "offset": [0.0, 0.0, 0.0]}
        ops += [add(False) for _ in range(draw(st.integers(1, 3)))]
        ops.append(add(True))
        ops += [add(draw(st.booleans())) for _ in range(draw(st.integers(0, 3)))]
        if draw(st.integers(0, 2)) == 0:
            # the first tree is emptied completely (everything placed before the second tree was opened goes,
            # the surrounding residues included) while the second one still holds residues; queries follow
            ops.append({"op": "empty_first"})
            for _q in range(draw(st.integers(1, 3))):
                ops.append({"op": "force", "mol": draw(st.integers(0, nmol - 1)), "node": draw(st.integers(0, 5)),
                            "point": draw(_coord(box)), "near": True, "pick": draw(st.integers(0, 100)),
                            "offset": [draw(st.integers(-400, 400)) / 1000.0 for _ in range(3)],
                            "exclude_mask": 0})
            if draw(st.booleans()):
                ops.append({"op": "add", "pick": draw(st.integers(0, 100)), "point": draw(_coord(box)), "start": False,
                            "near": False, "offset": [0.0, 0.0, 0.0]})
        for _ in range(draw(st.integers(1, 2))):
            ops.append({"op": "remove", "mol": draw(st.integers(0, nmol - 1)), "mask": draw(st.integers(1, 63)),
                        "whole": draw(st.booleans())})
            for _q in range(draw(st.integers(1, 3))):
                ops.append({"op": "force", "mol": draw(st.integers(0, nmol - 1)), "node": draw(st.integers(0, 5)),
                            "point": draw(_coord(box)), "near": False, "ghost": True, "pick": draw(st.integers(0, 100)),
                            "offset": [draw(st.integers(-400, 400)) / 1000.0 for _ in range(3)],
                            "exclude_mask": 0})
    nsteps = draw(st.integers(5, 40 if not large else 8))
    for _ in range(nsteps):
        kind = draw(st.sampled_from(["add", "add", "add", "remove", "force", "force", "get", "concat", "dist", "sync"]))
        if kind == "sync":
            ops.append({"op": "sync"})
            continue
        if kind == "add":
            ops.append({"op": "add", "pick": draw(st.integers(0, 100)), "point": draw(_coord(box)),
                        "start": draw(st.booleans()), "near": draw(st.integers(0, 2)) == 0,
                        "offset": [draw(st.integers(-600, 600)) / 1000.0 for _ in range(3)]})
        elif kind == "remove":
            ops.append({"op": "remove", "mol": draw(st.integers(0, nmol - 1)),
                        "mask": draw(st.integers(0, 63)), "whole": draw(st.integers(0, 3)) == 0})
        elif kind == "force":
            ops.append({"op": "force", "mol": draw(st.integers(0, nmol - 1)), "node": draw(st.integers(0, 5)),
                        "point": draw(_coord(box)), "near": draw(st.integers(0, 1)) == 0,
                        "pick": draw(st.integers(0, 100)),
                        "offset": [draw(st.integers(-700, 700)) / 1000.0 for _ in range(3)],
                        "exclude_mask": draw(st.integers(0, 63))})
        elif kind == "get":
            ops.append({"op": "get", "mol": draw(st.integers(0, nmol - 1)), "node": draw(st.integers(0, 5))})
        elif kind == "concat":
            ops.append({"op": "concat"})
        else:
            ops.append({"op": "dist", "a": draw(_coord(box)), "b": draw(_coord(box)),
                        "shift": [draw(st.integers(-2, 2)) for _ in range(3)]})
    return {"sizes": sizes, "types": types, "box": box, "large": large, "ops": ops,
            "cutoff_factor": draw(st.sampled_from([2.0, 2.0, 1.5])), "rng": draw(st.integers(0, 2**31 - 1))}


def strategy(tier):
    return _strategy()


def min_image(vec, box):
    return vec - box * np.round(vec / box)


def wrap(point, box):
    """into [0, L) - a float modulo can return L itself for tiny negative values"""
    out = np.mod(point, box)
    out[out >= box] = 0.0
    return out


def lj_energy(r, sig, eps):
    return 4 * eps * ((sig / r) ** 12 - (sig / r) ** 6)


def check(spec, ctx):
    from polyply.src.nonbond_engine import NonBondEngine
    sizes, box = spec["sizes"], np.array(spec["box"], dtype=float)
    nodes_to_idx, atypes = {}, []
    idx = 0
    for mol, size in enumerate(sizes):
        for node in range(size):
            nodes_to_idx[(mol, node)] = idx
            atypes.append(f"S{spec['types'][mol][node]}")
            idx += 1
    ndummy = 5001 if spec["large"] else 0
    rnd = np.random.RandomState(spec["rng"] % (2**32))
    dummy_pos = {}
    for k in range(ndummy):
        nodes_to_idx[(99, k)] = idx
        atypes.append("S0")
        dummy_pos[(99, k)] = rnd.uniform(0, 1, 3) * box
        idx += 1
    inter = {}
    for a, b in itertools.combinations_with_replacement(range(3), 2):
        inter[frozenset((f"S{a}", f"S{b}"))] = ((SIGMAS[a] + SIGMAS[b]) / 2.0, 1.0)
    cut_off = max(SIGMAS) * spec["cutoff_factor"]
    positions = np.ones((idx, 3)) * np.inf
    model = {}
    for key, pos in dummy_pos.items():
        positions[nodes_to_idx[key]] = pos
        model[key] = pos.copy()
    if spec["rng"] % 3 == 0:
        # an earlier engine in the same process with the same residue type names but other sizes, queried once:
        # nothing of it may show in the engine under test
        try:
            other = {k: (v[0] * 1.37, v[1] * 2.0) for k, v in inter.items()}
            pos0 = np.ones((3, 3)) * np.inf
            pos0[0] = box * 0.30
            pos0[1] = box * 0.30 + np.array([0.0, 0.5, 0.0])
            early = NonBondEngine(pos0, {(0, 0): 0, (0, 1): 1, (1, 0): 2}, ["S0", "S1", "S2"], other, None, None,
                                  cut_off * 1.37, box)
            early.compute_force_point(box * 0.30 + np.array([0.0, 0.2, 0.4]), 1, 0, exclude=[])
            early.compute_force_point(box * 0.30 + np.array([0.0, -0.3, 0.3]), 0, 0, exclude=[])
        except Exception as err:
            raise crash("construct:crash", err)
        ctx.label("after_another_engine_with_other_sizes")
    try:
        engine = NonBondEngine(positions, nodes_to_idx, atypes, inter, None, None, cut_off, box)
    except Exception as err:
        raise crash("construct:crash", err)
    had_removal = False
    removal_then_force = False
    across_face = False
    opened_second_tree = False
    emptied = False
    first_tree = []
    ghosts = []
    asked_at_ghost = False
    synced = False

    def brute_force(point, mol, node, exclude):
        """returns (force vector or inf, ambiguous?) from the model"""
        me = atypes[nodes_to_idx[(mol, node)]]
        total = np.zeros(3)
        hard = False
        soft = False
        nonlocal across_face
        for key, pos in model.items():
            if ndummy and abs(point[0] - pos[0]) > cut_off and abs(abs(point[0] - pos[0]) - box[0]) > cut_off:
                continue
            vec = min_image(point - pos, box)
            r = float(np.linalg.norm(vec))
            if r > cut_off:
                continue
            excluded = key in exclude
            if r < 0.1:
                if excluded:
                    soft = True
                else:
                    hard = True
                continue
            if excluded:
                continue
            if np.any(np.abs((point - pos) - vec) > 1e-9):
                across_face = True
            sig, eps = inter[frozenset((me, atypes[nodes_to_idx[key]]))]
            total += 24 * eps / r * (2 * (sig / r) ** 12 - (sig / r) ** 6) * vec / r
        return total, hard, soft

    def numeric_force(point, mol, node, exclude):
        me = atypes[nodes_to_idx[(mol, node)]]

        def energy(p):
            e = 0.0
            for key, pos in model.items():
                if key in exclude:
                    continue
                r = float(np.linalg.norm(min_image(p - pos, box)))
                if r0[key] > cut_off:
                    continue
                sig, eps = inter[frozenset((me, atypes[nodes_to_idx[key]]))]
                e += lj_energy(r, sig, eps)
            return e
        r0 = {key: float(np.linalg.norm(min_image(point - pos, box))) for key, pos in model.items()}
        h = 1e-6
        grad = np.zeros(3)
        for ax in range(3):
            dp = np.zeros(3)
            dp[ax] = h
            grad[ax] = (energy(point + dp) - energy(point - dp)) / (2 * h)
        return -grad

    for step, op in enumerate(spec["ops"]):
        kind = op["op"]
        try:
            if kind == "add":
                free = [k for k in nodes_to_idx if k not in model and k[0] != 99]
                if not free:
                    continue
                key = free[op["pick"] % len(free)]
                point = np.array(op["point"], dtype=float)
                if op["near"] and model:
                    # place close to an already positioned residue (possibly across a face)
                    anchor = list(model.values())[op["pick"] % len(model)]
                    point = wrap(anchor + np.array(op["offset"]), box)
                ntrees = len(getattr(engine, "position_trees", []))
                engine.add_positions(point, key[0], key[1], start=op["start"])
                model[key] = point.copy()
                if len(getattr(engine, "position_trees", [])) > ntrees:
                    opened_second_tree = True
                if not opened_second_tree:
                    first_tree.append(key)
            elif kind == "empty_first":
                if not opened_second_tree:
                    continue
                by_mol = {}
                for key in first_tree:
                    if key in model:
                        by_mol.setdefault(key[0], []).append(key[1])
                for mol, nodes in by_mol.items():
                    engine.remove_positions(mol, nodes)
                    for n in nodes:
                        ghosts.append(model.pop((mol, n)))
                engine.remove_positions(99, list(range(ndummy)))
                for k in range(ndummy):
                    model.pop((99, k), None)
                had_removal = True
                ctx.label("first_of_two_trees_emptied")
            elif kind == "remove":
                mol = op["mol"]
                nodes = [n for n in range(sizes[mol]) if op["whole"] or (op["mask"] >> n) & 1]
                # the node list may be any iterable: a list, a tuple, or one that can be walked only once
                form = (step + len(nodes)) % 3
                engine.remove_positions(mol, nodes if form == 0 else (tuple(nodes) if form == 1 else iter(nodes)))
                for n in nodes:
                    if (mol, n) in model:
                        had_removal = True
                        ghosts.append(model[(mol, n)])
                    model.pop((mol, n), None)
                if not [k for k in model if k[0] != 99]:
                    emptied = True
            elif kind == "concat":
                engine.concatenate_trees()
            elif kind == "sync":
                # the bulk query: every node of every molecule gets the engine's current answer, also nodes that
                # brought their own coordinates along (supplied input) and have been removed since
                import networkx as nx
                mols = []
                for mol, size in enumerate(sizes):
                    g = nx.Graph()
                    for node in range(size):
                        g.add_node(node, position=np.array([1.0 + mol, 2.0 + node, 3.0]))
                    mols.append(g)
                engine.update_positions_in_molecules(mols)
                for mol, size in enumerate(sizes):
                    for node in range(size):
                        got = np.asarray(mols[mol].nodes[node].get("position"), dtype=float)
                        if (mol, node) in model:
                            if got.shape != (3,) or not np.allclose(got, model[(mol, node)], rtol=0, atol=1e-12):
                                raise Violation("bulk_positions:stale", f"step {step}: node {(mol, node)} reported at {got}, "
                                                                        f"expected {model[(mol, node)]}")
                        elif got.shape != (3,) or not np.all(np.isinf(got)):
                            raise Violation("bulk_positions:not_undefined", f"step {step}: node {(mol, node)} has no position "
                                                                            f"in the engine but is reported at {got}")
                synced = True
            elif kind == "get":
                mol, node = op["mol"], op["node"] % sizes[op["mol"]]
                got = engine.get_point(mol, node)
                if (mol, node) in model:
                    if not np.allclose(got, model[(mol, node)], rtol=0, atol=1e-12):
                        raise Violation("get_point:stale", f"step {step}: {got} expected {model[(mol, node)]}")
                elif not np.all(np.isinf(got)):
                    raise Violation("get_point:not_undefined", f"step {step}: removed/never placed node returns {got}")
            elif kind == "dist":
                a, b = np.array(op["a"]), np.array(op["b"])
                d = engine.pbc_min_dist(a, b)
                want = float(np.linalg.norm(min_image(a - b, box)))
                if abs(d - want) > 1e-9:
                    raise Violation("pbc_min_dist:value", f"{d} expected {want} for {a} {b}")
                if abs(engine.pbc_min_dist(b, a) - d) > 1e-12:
                    raise Violation("pbc_min_dist:asymmetric", f"{a} {b}")
                shifted = a + np.array(op["shift"]) * box
                if abs(engine.pbc_min_dist(shifted, b) - d) > 1e-9:
                    raise Violation("pbc_min_dist:not_periodic", f"{a} + {op['shift']}*box vs {b}")
                if d > float(np.linalg.norm(a - b)) + 1e-12:
                    raise Violation("pbc_min_dist:exceeds_direct", f"{d} > direct")
            elif kind == "force":
                mol, node = op["mol"], op["node"] % sizes[op["mol"]]
                point = np.array(op["point"], dtype=float)
                if op["near"] and model:
                    anchor = list(model.values())[op["pick"] % len(model)]
                    point = wrap(anchor + np.array(op["offset"]), box)
                if op.get("ghost") and ghosts:
                    # where a removed residue used to be
                    point = wrap(ghosts[op["pick"] % len(ghosts)] + np.array(op["offset"]), box)
                    asked_at_ghost = True
                exclude = [n for n in range(sizes[mol]) if (op["exclude_mask"] >> n) & 1]
                got = engine.compute_force_point(point, mol, node, exclude=exclude)
                want, hard, soft = brute_force(point, mol, node, {(mol, n) for n in exclude})
                if had_removal:
                    removal_then_force = True
                got_inf = np.isscalar(got) and np.isinf(got) or (not np.isscalar(got) and np.any(np.isinf(got)))
                if hard:
                    if not got_inf:
                        raise Violation("force:overlap_not_reported", f"step {step}: positioned residue within 0.1 nm "
                                                                      f"of {point}, force {got}")
                elif got_inf:
                    if not soft:
                        raise Violation("force:spurious_overlap", f"step {step}: inf although nothing is within 0.1 nm")
                else:
                    got_vec = np.zeros(3) + got
                    scale = max(1.0, float(np.linalg.norm(want)))
                    if np.linalg.norm(got_vec - want) > 1e-9 * scale:
                        raise Violation("force:value", f"step {step}: point {point} mol {mol} node {node} "
                                                       f"exclude {exclude}: {got_vec} expected {want}")
                    num = numeric_force(point, mol, node, {(mol, n) for n in exclude})
                    # (in a box thinner than twice the cut-off a neighbour may sit half a box edge away, where the
                    # nearest image changes and the energy has a kink: the gradient comparison is left out there)
                    if np.min(box) >= 2 * cut_off and \
                            np.linalg.norm(num - got_vec) > 1e-4 * max(1.0, float(np.linalg.norm(num))):
                        raise Violation("force:not_gradient", f"step {step}: {got_vec} vs numerical -grad {num}")
        except Violation:
            raise
        except Exception as err:
            raise crash(f"{kind}:crash", err)
        # invariants after every step; the internal index views are only compared when the engine
        # still exposes them under these names (they are implementation detail, the observable
        # behaviour is checked through the queries above and get_point below)
        if not all(hasattr(engine, a) for a in ("defined_idxs", "position_trees", "gndx_to_tree", "positions")):
            views = False
        else:
            views = True
        if not views:
            for key, pos in list(model.items())[:8]:
                if not np.allclose(engine.get_point(*key), pos, atol=1e-12):
                    raise Violation("get_point:stale", f"step {step}: node {key}")
            continue
        defined = sorted(i for lst in engine.defined_idxs for i in lst)
        want_defined = sorted(nodes_to_idx[k] for k in model)
        if defined != want_defined:
            raise Violation("views:defined_idxs", f"step {step} ({kind}): engine lists {len(defined)} positioned, model {len(want_defined)}")
        for tidx, (tree, lst) in enumerate(zip(engine.position_trees, engine.defined_idxs)):
            if tree.n != len(lst):
                raise Violation("views:tree_size", f"step {step}: tree {tidx} holds {tree.n} points, index list {len(lst)}")
            for g in lst:
                if engine.gndx_to_tree.get(g) != tidx:
                    raise Violation("views:gndx_to_tree", f"step {step}: index {g} listed in tree {tidx}, map says {engine.gndx_to_tree.get(g)}")
            if len(lst) and not np.allclose(tree.data, engine.positions[lst] % box, atol=1e-12) \
                    and not np.allclose(tree.data, engine.positions[lst], atol=1e-12):
                raise Violation("views:tree_data", f"step {step}: tree {tidx} holds stale coordinates")
        if set(engine.gndx_to_tree) != set(want_defined):
            raise Violation("views:gndx_to_tree", f"step {step}: map keys differ from positioned set")
        for key, pos in list(model.items())[:8]:
            if not np.allclose(engine.get_point(*key), pos, atol=1e-12):
                raise Violation("get_point:stale", f"step {step}: node {key}")
    if synced:
        ctx.label("bulk_position_query")
    if opened_second_tree:
        ctx.label("second_tree_opened")
    if opened_second_tree and asked_at_ghost:
        ctx.label("two_trees_removal_then_query_at_removed")
    if emptied:
        ctx.label("emptied")
    if across_face:
        ctx.label("across_face")
    if had_removal:
        ctx.label("removal")
    ctx.nontrivial = removal_then_force and across_face
