"""C04 - supplied coordinates are preserved; only missing parts are built."""
import math

import numpy as np
import hypothesis.strategies as st

from . import gc, c03
from .core import Violation, Reject, crash

PID = "C04"
LEVEL = "exploration"
RULE = ("C03 systems (one in five with residue names longer than a .gro field, alike in the first five characters) in which a prefix of the residue stream is supplied as atom coordinates (-c) or residue "
        "centres (-mc), with -res names (absent from the input structure), -ign molecule types (fully supplied, "
        "at every position of [molecules]) and a drawn pattern of failed placement steps injected into "
        "RandomWalk.update_positions; compared: output .gro vs input .gro (5e-4 nm), captured atom positions "
        "(1e-9), centre of geometry of backmapped residues vs supplied centres, set of residues that received "
        "an engine placement vs the set not covered by the input, rows of supplied residues after every injected "
        "failure. non-trivial = (partial chain and >=1 injected failure) or an ignored type that is not last in "
        "[molecules]; distinct = spec hash")
ASSUMPTIONS = ["residues named with -res are absent from the input structure (the reader skips them without "
               "consuming coordinates)", "ignored molecule types are fully present in the input structure",
               "independent .gro reader"]
BUDGET = {"quick": (16, 40), "thorough": (16, 1500)}


@st.composite
def _strategy(draw):
    spec = draw(gc.system(max_res=8))
    if draw(st.integers(0, 4)) == 0:
        # residue names longer than the five characters a .gro file holds, alike in their first five
        import copy
        spec = copy.deepcopy(spec)
        for mt in spec["moltypes"]:
            for r in mt["residues"]:
                r["resname"] = "RESID" + r["resname"][1:]
        spec["long_names"] = True
    edge = gc.dilute_box(spec) + 1.0
    # a small rewind depth so that injected failures lead to rewinds also for short chains
    opts = {"box": [edge, edge, edge], "nrewind": draw(st.sampled_from([1, 2, 3, 5]))}
    resn = sorted({r["resname"] for mt in spec["moltypes"] for r in mt["residues"]})
    if draw(st.integers(0, 2)) == 0 and len(resn) > 1:
        opts["build_res"] = [draw(st.sampled_from(resn))]
    if opts.get("build_res") and draw(st.integers(0, 2)) == 0:
        # a molecule type called like the repeat unit named with -res (a polymer PEO made of OHS-PEO-PEO-OHE)
        rn = opts["build_res"][0]
        cands = [mt for mt in spec["moltypes"] if any(r["resname"] == rn for r in mt["residues"])
                 and any(r["resname"] != rn for r in mt["residues"]) and mt["name"] in {n for n, _ in spec["molecules"]}]
        if cands and rn not in {mt["name"] for mt in spec["moltypes"]}:
            mt = draw(st.sampled_from(cands))
            spec["molecules"] = [[rn if n == mt["name"] else n, c] for n, c in spec["molecules"]]
            mt["name"] = rn
            spec["moltype_named_like_residue"] = True
    names = [n for n, _ in spec["molecules"]]
    ignore = None
    if draw(st.integers(0, 2)) == 0 and len(set(names)) > 1:
        ignore = draw(st.sampled_from(sorted(set(names))))
        opts["ignore"] = [ignore]
        opts.pop("build_res", None)
    atoms = [a for a in gc.expanded_atoms(spec) if a[1] not in opts.get("build_res", ())]
    if not atoms:
        opts.pop("build_res", None)
        atoms = gc.expanded_atoms(spec)
    stream = []
    for a in atoms:
        if not stream or stream[-1] != (a[3], a[4]):
            stream.append((a[3], a[4]))
    total = len(stream)
    if ignore is not None:
        # the prefix must cover every molecule of the ignored type
        mol_names = [n for n, c in spec["molecules"] for _ in range(c)]
        last_ign = max(i for i, n in enumerate(mol_names) if n == ignore)
        need = max(k for k, (mi, ri) in enumerate(stream) if mi <= last_ign) + 1
        nres = draw(st.integers(need, total))
        mode = "c"
    else:
        nres = draw(st.integers(1, total))
        mode = draw(st.sampled_from(["c", "c", "mc"]))
    spec["coords"] = draw(c03.supplied_coords(spec, opts["box"], mode=mode, nres=nres,
                                              skip=opts.get("build_res", ())))
    if spec["coords"] and draw(st.integers(0, 3)) == 0:
        spec["coords"]["primed"] = True
    if spec["coords"] and draw(st.integers(0, 3)) == 0:
        # the atom-number column of the structure file starts again at 1 every few atoms
        spec["coords"]["restart"] = draw(st.integers(1, 7))
    if mode == "c" and ignore is None and not opts.get("build_res") and nres == total and draw(st.integers(0, 1)) == 0:
        # -split together with a complete start structure: the residues are split first, the supplied atoms
        # keep their coordinates all the same (with a partial structure the closely spaced atoms of a split
        # residue leave no room for the next residue and the builder retries for ever)
        cands = sorted({r["resname"]: r for mt in spec["moltypes"] for r in mt["residues"]
                        if len(r["atoms"]) >= 2 and r["vs"] is None}.items())
        if cands:
            resname, rd = draw(st.sampled_from(cands))
            cut = draw(st.integers(1, len(rd["atoms"]) - 1))
            names_ = [a["name"] for a in rd["atoms"]]
            opts["split"] = [f"{resname}:X1-" + ",".join(names_[:cut]) + ":X2-" + ",".join(names_[cut:])]
    if not opts.get("split") and draw(st.integers(0, 3)) == 0:
        # the walk of one molecule is told (-start) to begin at a residue that has supplied coordinates
        by_name = {mt["name"]: mt for mt in spec["moltypes"]}
        mol_names = [n for n, c in spec["molecules"] for _ in range(c)]
        cands = [(mi, ri) for (mi, ri) in stream[:nres] if mol_names[mi] != ignore]
        if cands:
            mi, ri = draw(st.sampled_from(cands))
            rd = by_name[mol_names[mi]]["residues"][ri]
            opts["start"] = [f"{mol_names[mi]}#{mi}-{rd['resname']}#{ri + 1}"]
    spec["opts"] = opts
    if draw(st.integers(0, 2)) == 0:
        # a burst of failures right at the start together with a small number of allowed attempts:
        # the molecule runs out of attempts before it succeeds
        spec["fail_pattern"] = [True] * draw(st.integers(1, 4)) + [draw(st.integers(0, 3)) == 0 for _ in range(draw(st.integers(0, 6)))]
        opts["maxiter"] = draw(st.sampled_from([0, 1, 2]))
    else:
        spec["fail_pattern"] = [draw(st.integers(0, 3)) == 0 for _ in range(draw(st.integers(0, 16)))]
    if opts.get("split"):
        # no injected failures together with -split (attempt limits of 0-2 and a split residue graph can leave
        # the builder retrying for ever on the pinned tree - a liveness matter, outside this property)
        spec["fail_pattern"] = []
        opts.pop("maxiter", None)
    return spec


def strategy(tier):
    return _strategy()


def check(spec, ctx):
    from polyply.src.random_walk import RandomWalk
    coords = spec["coords"]
    skip = set(spec["opts"].get("build_res", ()))
    ignore = set(spec["opts"].get("ignore", ()))
    all_atoms = gc.expanded_atoms(spec)
    atoms = [a for a in all_atoms if a[1] not in skip]
    stream = []
    for a in atoms:
        if not stream or stream[-1] != (a[3], a[4]):
            stream.append((a[3], a[4]))
    supplied_res = stream[:coords["nres"]]
    supplied_set = set(supplied_res)
    mol_names = [n for n, c in spec["molecules"] for _ in range(c)]
    # expected input coordinate per atom / per residue
    want_atom = {}
    want_centre = {}
    if coords["mode"] == "c":
        it = iter(coords["atoms"])
        for i, a in enumerate(all_atoms):
            if (a[3], a[4]) in supplied_set and a[1] not in skip:
                want_atom[i] = np.array(next(it)[3], dtype=float)
    else:
        it = iter(coords["atoms"])
        for key in supplied_res:
            want_centre[key] = np.array(next(it)[3], dtype=float)

    pattern = list(spec.get("fail_pattern", []))
    state = {"fails": 0, "engine": None}
    orig_update = RandomWalk.update_positions

    def scripted(self, vector_bundle, current_node, prev_node):
        state["engine"] = self.nonbond_matrix
        if pattern and pattern.pop(0):
            state["fails"] += 1
            verify_rows(self.nonbond_matrix, "after an injected placement failure")
            return False
        return orig_update(self, vector_bundle, current_node, prev_node)

    def verify_rows(engine, when):
        if spec["opts"].get("split"):
            return          # residue keys change with the split
        for (mi, ri) in supplied_set:
            if mol_names[mi] in ignore:
                continue
            key = (mi, ri)
            if key not in engine.nodes_to_gndx:
                raise Violation("engine:supplied_residue_unknown", f"{when}: residue {key} not in the engine")
            row = engine.get_point(mi, ri)
            if coords["mode"] == "mc":
                want = want_centre[key]
            else:
                idxs = [i for i, a in enumerate(all_atoms) if (a[3], a[4]) == key]
                want = np.mean([want_atom[i] for i in idxs], axis=0)
            if not np.allclose(row, want, atol=1e-6):
                raise Violation("engine:supplied_row_changed", f"{when}: residue {key} row {row} expected {want}")

    RandomWalk.update_positions = scripted
    try:
        res = gc.run_gen_coords(spec, ctx)
    finally:
        RandomWalk.update_positions = orig_update
    if res.exc is not None:
        if isinstance(res.exc, Violation):
            raise res.exc
        if isinstance(res.exc, (IOError, OSError)):
            raise Reject(str(res.exc)[:200])
        if gc.refused_outside_box(res.exc, spec):
            raise Reject("start structure with coordinates beyond its box")
        raise crash("gen_coords:crash", res.exc)
    if spec["opts"].get("split"):
        if res.gro_text is None or isinstance(res.gro, Exception) or len(res.gro["atoms"]) != len(all_atoms):
            raise Violation("gro:atom_count", "the output does not list every atom of the topology")
    else:
        c03.check_gro_listing(spec, res)
    got = res.gro["atoms"]
    # (a) supplied atoms keep their coordinates
    for i, want in want_atom.items():
        xyz = np.array(got[i]["xyz"])
        if np.max(np.abs(xyz - want)) > 5e-4:
            raise Violation("gro:supplied_atom_moved", f"atom {i + 1} {all_atoms[i][:3]}: {xyz} expected {want}")
    # captured molecule positions (exact)
    topo = res.topology
    flat = []
    for mol in topo.molecules:
        for node in mol.molecule.nodes:
            flat.append(mol.molecule.nodes[node].get("position"))
    for i, want in want_atom.items():
        if flat[i] is None or np.max(np.abs(np.array(flat[i]) - want)) > 1e-9:
            raise Violation("topology:supplied_atom_moved", f"atom {i + 1}: {flat[i]} expected {want}")
    if spec["opts"].get("split"):
        # residue identities change with the split; the atom-level clause above is the one that applies
        ctx.label("split_with_start_structure")
        ctx.nontrivial = bool(want_atom)
        return
    # (b) centre-only residues
    for key, want in want_centre.items():
        idxs = [i for i, a in enumerate(all_atoms) if (a[3], a[4]) == key]
        cog = np.mean([np.array(flat[i], dtype=float) for i in idxs], axis=0)
        if np.max(np.abs(cog - want)) > 1e-6:
            raise Violation("backmap:centre_not_kept", f"residue {key}: centre of geometry {cog}, supplied centre {want}")
    # (c) exactly the missing residues were generated
    placed = set()
    for ev in res.events:
        if ev[0] == "add":
            placed.add((ev[1], ev[2]))
    residues = []
    for a in all_atoms:
        if not residues or residues[-1] != (a[3], a[4]):
            residues.append((a[3], a[4]))
    should_build = {key for key in residues if key not in supplied_set}
    ghost = {key for key in placed if key in supplied_set}
    if ghost:
        raise Violation("build:supplied_residue_rebuilt", f"residues {sorted(ghost)[:4]} have input coordinates but were placed again")
    missing = {key for key in should_build if key not in placed and mol_names[key[0]] not in ignore}
    if missing:
        raise Violation("build:missing_residue_not_built", f"residues {sorted(missing)[:4]} were neither supplied nor placed")
    # (d) ignored molecules: coordinates untouched (covered by (a)) and all others complete (listing check)
    if state["fails"]:
        ctx.label("injected_failures")
    partial = any(any((mi, r) in supplied_set for r in range(50)) and any((mi, r) in should_build for r in range(50))
                  for mi in range(len(mol_names)))
    if partial:
        ctx.label("partial_chain")
    if ignore:
        ctx.label("ignore")
        last = mol_names[-1] in ignore and all(n not in ignore for n in mol_names[:-1]) and False
    ctx.label("mode_" + coords["mode"])
    if skip:
        ctx.label("res_option")
    if spec["opts"].get("start"):
        ctx.label("start_at_supplied_residue")
    ign_not_last = bool(ignore) and any(n not in ignore for n in mol_names[max(i for i, n in enumerate(mol_names) if n in ignore):][1:]) if ignore else False
    ctx.nontrivial = (partial and state["fails"] > 0) or ign_not_last
