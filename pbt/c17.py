"""C17 - failed placements are rolled back completely; accepted ones never move."""
import itertools

import numpy as np
import hypothesis.strategies as st

from .core import Violation, Reject, Inconclusive, crash

PID = "C17"
LEVEL = "fault_enumeration"
EXHAUSTIVE = False
RULE = ("success/failure schedules injected into RandomWalk.update_positions. Enumerated part: every bit string "
        "up to the tier's length (quick 9, thorough 13; bit = one placement step fails) x 14 residue-graph shapes "
        "(paths, stars, rings, ring with tail; 0-3 pre-positioned residues) x rewind depth 1..4 through the real "
        "RandomWalk.run_molecule in a large empty box. Generated part: 1-3 molecules through the real "
        "BuildSystem._compose_system/_handle_random_walk with drawn schedules (one in four also scripting the trial level inside the real update_positions: all trials but the last permitted one rejected / all rejected) long enough to abandon whole "
        "attempts. History invariants are checked through wrappers around the neighbour engine at every step "
        "(parent positioned, nothing later in growth order positioned, other molecules and supplied residues "
        "bit-identical, one position per residue at the end, no start placement when the molecule already has "
        "a positioned residue). non-trivial = schedule that triggers a rewind or an abandoned attempt; "
        "distinct = (shape, pre-positioned set, nrewind, schedule)")
ASSUMPTIONS = ["a successful placement is the repository's own update_positions in a 30 nm empty box "
               "(never fails there; if it does the case is inconclusive)",
               "schedules are exhaustive only up to the stated length and for the listed shapes"]
RULE += (' A quarter of the system cases run a second _compose_system pass over the finished system: no step is walked, no row changes, no residue gets a second entry.')
BUDGET = {"quick": (16, 60), "thorough": (16, 1500)}

SHAPES = {
    "path2": (2, [(0, 1)]),
    "path4": (4, [(0, 1), (1, 2), (2, 3)]),
    "path7": (7, [(i, i + 1) for i in range(6)]),
    "star4": (4, [(0, 1), (0, 2), (0, 3)]),
    "star6": (6, [(0, 1), (0, 2), (0, 3), (3, 4), (3, 5)]),
    "tree7": (7, [(0, 1), (1, 2), (1, 3), (3, 4), (0, 5), (5, 6)]),
    "ring4": (4, [(0, 1), (1, 2), (2, 3), (3, 0)]),
    "ring6": (6, [(i, (i + 1) % 6) for i in range(6)]),
    "ringtail": (6, [(0, 1), (1, 2), (2, 0), (2, 3), (3, 4), (4, 5)]),
}
PRESETS = [
    ("path2", []), ("path4", []), ("path4", [0]), ("path4", [1]), ("path7", []), ("path7", [0, 1]),
    ("path7", [3]), ("star4", []), ("star6", [0]), ("tree7", []), ("tree7", [1]), ("ring4", []),
    ("ring6", [0, 1, 2]), ("ringtail", []),
]


def enumerate_cases(tier, seed):
    maxlen = 9 if tier == "quick" else 13
    cases = []
    for (shape, pre) in PRESETS:
        n = SHAPES[shape][0]
        nbuild = n - len(pre)
        for nrewind in (1, 2, 3, 4):
            # schedules longer than needed add nothing once every build step could fail repeatedly;
            # cap the length per shape to keep the enumeration finite and meaningful
            cap = min(maxlen, nbuild + 6)
            for length in range(0, cap + 1):
                if (shape, nrewind) not in (("path7", 2), ("tree7", 2), ("path4", 1), ("ring6", 3)) \
                        and length > min(cap, 7 if tier == "quick" else 10):
                    continue
                for bits in itertools.product((0, 1), repeat=length):
                    if length and bits[-1] == 0:
                        continue          # trailing successes are implied
                    cases.append({"layer": "walk", "shape": shape, "pre": pre, "nrewind": nrewind,
                                  "schedule": list(bits), "rng": 7})
    return cases


@st.composite
def _strategy(draw):
    nmol = draw(st.integers(1, 3))
    mols = []
    for _ in range(nmol):
        shape = draw(st.sampled_from(sorted(SHAPES)))
        n = SHAPES[shape][0]
        pre = sorted(draw(st.lists(st.integers(0, n - 1), max_size=3, unique=True))) if draw(st.booleans()) else []
        if n >= 4 and draw(st.integers(0, 3)) == 0:
            # supplied and built residues alternate in the growth order (a supplied backbone whose pendants are
            # rebuilt, a host with several ligands): every other node is pre-positioned
            pre = list(range(draw(st.integers(0, 1)), n, 2))
        if len(pre) == n:
            pre = pre[:-1]
        mols.append({"shape": shape, "pre": pre})
    length = draw(st.integers(0, 40))
    pfail = draw(st.sampled_from([0.2, 0.5, 0.8]))
    schedule = [1 if draw(st.integers(0, 99)) < pfail * 100 else 0 for _ in range(length)]
    nrewind = draw(st.integers(1, 5))
    if draw(st.integers(0, 3)) == 0:
        # trial-level outcomes inside the repository's own update_positions: 2 = every trial but the last permitted
        # one is rejected (the step succeeds), 3 = every permitted trial is rejected (the step fails)
        schedule = [draw(st.sampled_from([2, 2, 3])) if draw(st.integers(0, 3)) == 0 else b for b in schedule]
    if draw(st.integers(0, 7)) == 0:
        # one step that fails as often in a row as the walk tolerates (80 with the default settings), once or
        # twice, after a few successful steps; mostly with the smallest rewind depth, which keeps the attempt alive
        pos = draw(st.integers(0, min(6, len(schedule))))
        schedule = [0] * pos + [1] * draw(st.sampled_from([79, 80, 81, 160])) + schedule[pos:]
        nrewind = draw(st.sampled_from([1, 1, 1, 2]))
    return {"layer": "system", "mols": mols, "nrewind": nrewind, "schedule": schedule,
            "maxiter_mol": draw(st.integers(0, 3)), "rng": draw(st.integers(0, 2**31 - 1)),
            "dummies": 5001 if draw(st.integers(0, 19)) == 0 else 0, "second_pass": draw(st.integers(0, 3)) == 0}


def strategy(tier):
    return _strategy()


BOX = np.array([30.0, 30.0, 30.0])


def build_molecule(shape, pre, mol_idx, offset):
    import networkx as nx
    from polyply.src.meta_molecule import MetaMolecule
    n, edges = SHAPES[shape]
    graph = nx.Graph()
    for i in range(n):
        graph.add_node(i, resname="A", resid=i + 1)
    graph.add_edges_from(edges)
    meta = MetaMolecule(graph, force_field=None, mol_name=f"m{mol_idx}")
    positions = {}
    for k, node in enumerate(pre):
        # supplied residues: a straight line, 0.5 nm apart, each molecule in its own corner
        pos = np.array([5.0 + 6.0 * mol_idx, 5.0 + 0.5 * k, 5.0 + offset])
        meta.nodes[node]["build"] = False
        meta.nodes[node]["position"] = pos
        positions[node] = pos
    return meta, positions


class Recorder:
    """wraps the engine's add/remove to keep an event log"""

    def __init__(self, engine):
        self.engine = engine
        self.events = []
        self.orig_add = engine.add_positions
        self.orig_remove = engine.remove_positions
        engine.add_positions = self.add
        engine.remove_positions = self.remove

    def add(self, point, mol_idx, node_key, start=True):
        self.events.append(("add", mol_idx, node_key, bool(start)))
        return self.orig_add(point, mol_idx, node_key, start=start)

    def remove(self, mol_idx, node_keys):
        node_keys = list(node_keys)
        self.events.append(("remove", mol_idx, tuple(node_keys)))
        return self.orig_remove(mol_idx, node_keys)


def make_engine(mols, dummies=0):
    from polyply.src.nonbond_engine import NonBondEngine
    nodes_to_idx, atypes = {}, []
    idx = 0
    for mol_idx, (meta, _) in enumerate(mols):
        for node in meta.nodes:
            nodes_to_idx[(mol_idx, node)] = idx
            atypes.append("A")
            idx += 1
    first_dummy = idx
    for k in range(dummies):
        nodes_to_idx[(999, k)] = idx
        atypes.append("A")
        idx += 1
    positions = np.ones((idx, 3)) * np.inf
    for k in range(dummies):
        # one layer of beads on the plane x = 29.5 (0.4 nm apart): a surrounding big enough for the engine to
        # open another search tree when the next molecule is started
        positions[first_dummy + k] = np.array([29.5, 0.2 + 0.4 * (k % 74), 0.2 + 0.4 * (k // 74)])
    for mol_idx, (meta, pos) in enumerate(mols):
        for node, p in pos.items():
            positions[nodes_to_idx[(mol_idx, node)]] = p
    inter = {frozenset(("A", "A")): (0.4, 1.0)}
    return NonBondEngine(positions, nodes_to_idx, atypes, inter, {}, None, 0.8, BOX)


def positioned(engine, mol_idx, node):
    return bool(np.all(np.isfinite(engine.get_point(mol_idx, node))))


def check(spec, ctx):
    import polyply.src.random_walk as rw
    from polyply.src.random_walk import RandomWalk
    from polyply.src.linalg_functions import norm_sphere
    if spec["layer"] == "walk":
        mol_specs = [{"shape": spec["shape"], "pre": spec["pre"]}]
    else:
        mol_specs = spec["mols"]
    mols = [build_molecule(m["shape"], m["pre"], i, 0.0) for i, m in enumerate(mol_specs)]
    engine = make_engine(mols, dummies=spec.get("dummies", 0))
    if spec.get("dummies"):
        ctx.label("large_surrounding")
    rec = Recorder(engine)
    schedule = list(spec["schedule"])
    state = {"calls": 0, "fails": 0, "rewinds": 0, "abandons": 0, "attempt": None, "accepted": {}}
    supplied = {(i, node): pos.copy() for i, (meta, posd) in enumerate(mols) for node, pos in posd.items()}
    orig_update = RandomWalk.update_positions
    orig_run = RandomWalk.run_molecule
    orig_rewind = RandomWalk._rewind

    def rows_of(mol_idx):
        meta = mols[mol_idx][0]
        return {node: engine.get_point(mol_idx, node).copy() for node in meta.nodes}

    def check_static(context, current_mol):
        for (mi, node), pos in supplied.items():
            if not np.array_equal(engine.get_point(mi, node), pos):
                raise Violation("supplied_row_changed", f"{context}: supplied residue {node} of molecule {mi} is now "
                                                        f"{engine.get_point(mi, node)} (was {pos})")
        for mi, rows in state["accepted"].items():
            if mi == current_mol:
                continue
            for node, pos in rows.items():
                if not np.array_equal(engine.get_point(mi, node), pos):
                    raise Violation("accepted_molecule_moved", f"{context}: residue {node} of accepted molecule {mi} changed")

    def scripted_update(self, vector_bundle, current_node, prev_node):
        state["calls"] += 1
        mol_idx = self.mol_idx
        meta = self.molecule
        ctxt = f"call {state['calls']} (molecule {mol_idx}, step {prev_node}->{current_node})"
        check_static(ctxt, mol_idx)
        if not positioned(engine, mol_idx, prev_node):
            raise Violation("grown_from_unpositioned", f"{ctxt}: parent residue {prev_node} has no position")
        if positioned(engine, mol_idx, current_node):
            raise Violation("target_already_positioned", f"{ctxt}: residue {current_node} still has a position")
        path = list(meta.search_tree.edges)
        idx = path.index((prev_node, current_node))
        for (_, later) in path[idx + 1:]:
            if meta.nodes[later]["build"] and positioned(engine, mol_idx, later):
                raise Violation("discarded_part_not_removed", f"{ctxt}: residue {later}, later in growth order, is still positioned")
        fail = schedule.pop(0) if schedule else 0
        if fail == 1:
            state["fails"] += 1
            return False
        if fail in (2, 3):
            # the outcome is scripted one level down: the overlap test rejects the first maxiter (2) or all
            # maxiter + 1 (3) trials of this step
            state["trial_rejects"] = self.maxiter + (1 if fail == 3 else 0)
            state["trial_level"] = state.get("trial_level", 0) + 1
        try:
            ok = orig_update(self, vector_bundle, current_node, prev_node)
        finally:
            state["trial_rejects"] = 0
        placed = positioned(engine, mol_idx, current_node)
        if ok and not placed:
            raise Violation("success_without_position", f"{ctxt}: the step reports success but residue {current_node} has no position")
        if not ok and placed:
            raise Violation("failure_with_position", f"{ctxt}: the step reports failure but residue {current_node} was positioned")
        if fail == 3:
            if ok:
                raise Inconclusive("a step whose trials were all rejected succeeded")
            state["fails"] += 1
            return False
        if not ok:
            raise Inconclusive("real placement failed in an empty box")
        return True

    orig_overlap = RandomWalk._is_overlap

    def scripted_overlap(self, point, node, *args, **kwargs):
        if state.get("trial_rejects", 0) > 0:
            state["trial_rejects"] -= 1
            return True
        return orig_overlap(self, point, node, *args, **kwargs)

    def wrapped_rewind(self, current_step):
        state["rewinds"] += 1
        return orig_rewind(self, current_step)

    def wrapped_run(self, meta_molecule):
        mol_idx = self.mol_idx
        ctxt = f"start of an attempt on molecule {mol_idx}"
        check_static(ctxt, mol_idx)
        had_position = False
        for node in meta_molecule.nodes:
            if meta_molecule.nodes[node]["build"]:
                if positioned(engine, mol_idx, node):
                    raise Violation("abandoned_attempt_not_cleared", f"{ctxt}: residue {node} of the previous attempt is still positioned")
            elif positioned(engine, mol_idx, node):
                had_position = True
        nev = len(rec.events)
        out = orig_run(self, meta_molecule)
        if had_position:
            for ev in rec.events[nev:]:
                if ev[0] == "add" and ev[1] == mol_idx and ev[3]:
                    raise Violation("start_placement_despite_positioned_residue",
                                    f"molecule {mol_idx} has supplied residues but residue {ev[2]} was put on a start point")
        if not self.success:
            state["abandons"] += 1
        return out

    RandomWalk.update_positions = scripted_update
    RandomWalk._is_overlap = scripted_overlap
    RandomWalk.run_molecule = wrapped_run
    RandomWalk._rewind = wrapped_rewind
    sphere = norm_sphere(300)
    try:
        if spec["layer"] == "walk":
            meta = mols[0][0]
            proc = RandomWalk(0, engine, start=np.array([15.0, 15.0, 15.0]), step_fudge=1.0, maxiter=50,
                              maxdim=BOX, max_force=1e9, vector_sphere=sphere, start_node=None,
                              nrewind=spec["nrewind"])
            try:
                proc.run_molecule(meta)
            except (Violation, Inconclusive):
                raise
            except Exception as err:
                raise crash("walk:crash", err)
            check_static("after the walk", 0)
            if proc.success:
                finish_checks(engine, mols, [0])
        else:
            from polyply.src.build_system import BuildSystem
            bs = BuildSystem.__new__(BuildSystem)
            bs.topology = None
            bs.ignore = []
            bs.box = BOX
            bs.box_grid = np.array([[15.0, 15.0, 15.0], [10.0, 20.0, 12.0], [22.0, 8.0, 18.0], [8.0, 9.0, 25.0]])
            # a small number of allowed attempts: molecules also run out of attempts and are started over
            bs.maxiter = spec["maxiter_mol"]
            bs.start_dict = {i: None for i in range(len(mols))}
            bs.nonbond_matrix = engine
            bs.rwargs = {"step_fudge": 1.0, "max_force": 1e9, "nrewind": spec["nrewind"]}
            molecules = [m for m, _ in mols]
            orig_handle = BuildSystem._handle_random_walk

            def wrapped_handle(self, molecule, mol_idx, vector_sphere):
                success, nb = orig_handle(self, molecule, mol_idx, sphere)
                if success:
                    state["accepted"][mol_idx] = rows_of(mol_idx)
                return success, nb

            BuildSystem._handle_random_walk = wrapped_handle
            try:
                bs._compose_system(molecules)
            except (Violation, Inconclusive):
                raise
            except Exception as err:
                raise crash("system:crash", err)
            finally:
                BuildSystem._handle_random_walk = orig_handle
            check_static("after the system was built", None)
            finish_checks(engine, mols, range(len(mols)))
            if spec.get("second_pass"):
                # a further pass over the finished system (a staged build): every molecule has its positions, so
                # none is walked again, no row changes and no residue gets a second entry
                ctx.label("second_pass_over_finished_system")
                final = bs.nonbond_matrix
                before = np.array(final.positions, copy=True)
                calls = state["calls"]
                try:
                    bs._compose_system(molecules)
                except (Violation, Inconclusive):
                    raise
                except Exception as err:
                    raise crash("system:second_pass_crash", err)
                if state["calls"] != calls or not np.array_equal(before, bs.nonbond_matrix.positions):
                    raise Violation("accepted_molecule_rebuilt", "a second pass over the finished system walked "
                                    f"{state['calls'] - calls} further steps / changed positions of accepted molecules")
                finish_checks(bs.nonbond_matrix, mols, range(len(mols)))
            for mi, (meta, _) in enumerate(mols):
                for node in meta.nodes:
                    if not np.array_equal(meta.nodes[node].get("position"), engine.get_point(mi, node)):
                        raise Violation("positions_not_copied_back", f"molecule {mi} residue {node}")
    finally:
        RandomWalk.update_positions = orig_update
        RandomWalk._is_overlap = orig_overlap
        RandomWalk.run_molecule = orig_run
        RandomWalk._rewind = orig_rewind
    if state.get("trial_level"):
        ctx.label("trial_level_schedule")
    if state["rewinds"]:
        ctx.label("rewind")
    if state["abandons"]:
        ctx.label("abandoned_attempt")
    if supplied:
        ctx.label("pre_positioned")
    ctx.nontrivial = state["rewinds"] > 0 or state["abandons"] > 0


def finish_checks(engine, mols, which):
    for mi in which:
        meta = mols[mi][0]
        for node in meta.nodes:
            if not positioned(engine, mi, node):
                raise Violation("residue_without_position", f"molecule {mi} residue {node} has no position after success")
    flat = [g for lst in getattr(engine, "defined_idxs", []) for g in lst]
    if len(flat) != len(set(flat)):
        raise Violation("duplicate_position_entry", "a residue is registered twice in the neighbour engine")
