"""
Common machinery of the property-based checks (DESIGN.md section 2).

A property module provides

    PID, LEVEL ("exploration" | "fault_enumeration"), RULE (str), ASSUMPTIONS (list[str])
    BUDGET = {"quick": (shards, examples_per_shard), "thorough": (...)}
    strategy(tier)            -> hypothesis strategy of JSON-serialisable specs     (optional)
    enumerate_cases(tier, seed) -> list of specs, enumerated completely            (optional)
    check(spec, ctx)          -> None; raises Violation / Reject; labels through ctx
    KNOWN = {finding_key: predicate(spec, violation) -> bool}                      (optional)

The runner executes the cases in a fork pool, collects *every* violation (it does
not stop at the first one), buckets them by (clause, innermost polyply frame),
keeps the smallest failing spec per bucket, writes replay files and the evidence
file, prints the VIOLATION / KNOWN-FINDING lines and returns the exit code.
"""
import os
import sys
import json
import time
import random
import hashlib
import logging
import shutil
import tempfile
import traceback
import importlib
import multiprocessing
from pathlib import Path
from collections import Counter

VERIF = Path(__file__).resolve().parent.parent
WORK = VERIF / ".work"
# experiments against scratch copies of the repository redirect the outputs (tools/check_at.sh)
EVIDENCE = Path(os.environ["VERIF_OUT"]) / "evidence" if os.environ.get("VERIF_OUT") else VERIF / "evidence"
REPLAYS = Path(os.environ["VERIF_OUT"]) / "replays" if os.environ.get("VERIF_OUT") else VERIF / "replays"
KNOWN_FILE = VERIF / "known_findings.json"


class Violation(Exception):
    """The property does not hold for this case."""

    def __init__(self, clause, message, where=None):
        super().__init__(f"{clause}: {message}")
        self.clause = clause
        self.message = message
        self.where = where

    @property
    def bucket(self):
        return f"{self.clause}@{self.where or '-'}"


class Reject(Exception):
    """The case lies outside the property's domain (clean rejection by the code, or
    a shape the generator should not have produced). Counted, never a violation."""


class Inconclusive(Exception):
    """Budget hit (time-out); counted separately, never a violation."""


def innermost_polyply_frame(exc):
    """file:function of the innermost traceback frame inside polyply/src (bucket key)."""
    where = None
    for frame, _ in traceback.walk_tb(exc.__traceback__):
        fname = frame.f_code.co_filename
        if "polyply" in fname and "/src/" in fname:
            where = f"{os.path.basename(fname)}:{frame.f_code.co_name}"
    return where


def crash(clause, exc):
    """Turn an unexpected exception of the code under test into a Violation."""
    where = innermost_polyply_frame(exc)
    return Violation(clause, f"{type(exc).__name__}: {exc}"[:400],
                     where=f"{type(exc).__name__}@{where}")


def canonical(spec):
    return json.dumps(spec, sort_keys=True, separators=(",", ":"), default=str)


def spec_hash(spec):
    return hashlib.sha256(canonical(spec).encode()).hexdigest()[:16]


# ----------------------------------------------------------------------------
# log capture
class _Collector(logging.Handler):
    def __init__(self):
        super().__init__(level=logging.DEBUG)
        self.records = []

    def emit(self, record):
        try:
            msg = record.getMessage()
        except Exception:  # pragma: no cover
            msg = str(record.msg)
        self.records.append((record.levelno, record.name, msg))


_COLLECTOR = _Collector()


def install_log_capture():
    for name in ("polyply", "vermouth"):
        logger = logging.getLogger(name)
        logger.handlers = [_COLLECTOR]
        logger.setLevel(logging.INFO)
        logger.propagate = False


class Ctx:
    """Per-case context: fresh work directory, labels, captured log."""

    def __init__(self, root, index):
        self.dir = Path(root) / f"c{index}"
        self.labels = []
        self.nontrivial = False
        self.info = {}

    def label(self, name):
        self.labels.append(name)

    @property
    def log(self):
        return _COLLECTOR.records

    def warnings(self):
        return [r for r in _COLLECTOR.records if r[0] >= logging.WARNING]


def reset_global_state(ctx, rng_seed=0):
    """Executed at the top of every case."""
    import numpy as np
    try:
        from vermouth.file_writer import DeferredFileWriter
        DeferredFileWriter().close()
    except Exception:  # pragma: no cover
        pass
    random.seed(rng_seed)
    np.random.seed(rng_seed % (2**32))
    _COLLECTOR.records = []
    if ctx.dir.exists():
        shutil.rmtree(ctx.dir, ignore_errors=True)
    ctx.dir.mkdir(parents=True)
    os.chdir(ctx.dir)
    tempfile.tempdir = str(ctx.dir)
    sys.argv = ["polyply"]


def finish_case(ctx):
    os.chdir(VERIF)
    tempfile.tempdir = None
    shutil.rmtree(ctx.dir, ignore_errors=True)


# ----------------------------------------------------------------------------
class ShardResult:
    def __init__(self):
        self.evaluations = 0
        self.rejected = 0
        self.inconclusive = 0
        self.nontrivial = set()
        self.labels = Counter()
        self.samples = []
        self.violations = {}      # bucket -> (size, spec, message, count)
        self.errors = []

    def add_violation(self, bucket, spec, message):
        size = len(canonical(spec))
        old = self.violations.get(bucket)
        if old is None:
            self.violations[bucket] = [size, spec, message, 1]
        else:
            old[3] += 1
            if size < old[0]:
                old[0], old[1], old[2] = size, spec, message


def run_case(mod, spec, res, root, index, keep_sample=False):
    ctx = Ctx(root, index)
    rng_seed = spec.get("rng", 0) if isinstance(spec, dict) else 0
    reset_global_state(ctx, rng_seed)
    try:
        res.evaluations += 1
        try:
            mod.check(spec, ctx)
        except Reject:
            res.rejected += 1
            res.labels["rejected"] += 1
            return None
        except Inconclusive:
            res.inconclusive += 1
            return None
        except Violation as err:
            res.add_violation(err.bucket, spec, str(err))
            return err
        except BaseException as err:
            # a stray tick of a repeating time-limit timer that fired while the first one was being handled
            if type(err).__name__ == "_Timeout":
                res.inconclusive += 1
                return None
            raise
        for lab in set(ctx.labels):
            res.labels[lab] += 1
        if ctx.nontrivial:
            res.nontrivial.add(spec_hash(spec))
            if keep_sample and len(res.samples) < 2:
                res.samples.append(spec)
        return None
    finally:
        finish_case(ctx)


def _shard(args):
    mod_name, tier, seed, shard, n_examples, cases = args
    import warnings
    warnings.filterwarnings("ignore")
    os.environ.setdefault("TQDM_DISABLE", "1")
    mod = importlib.import_module(mod_name)
    install_log_capture()
    res = ShardResult()
    root = WORK / f"{mod.PID}_{os.getpid()}_{shard}"
    root.mkdir(parents=True, exist_ok=True)
    counter = [0]
    try:
        if cases is not None:
            for spec in cases:
                counter[0] += 1
                run_case(mod, spec, res, root, counter[0], keep_sample=True)
        else:
            import hypothesis
            from hypothesis import given, settings, HealthCheck, Phase

            @hypothesis.seed(seed * 1000 + shard)
            @settings(max_examples=n_examples, database=None, deadline=None,
                      derandomize=False, report_multiple_bugs=False,
                      suppress_health_check=list(HealthCheck),
                      phases=[Phase.generate])
            @given(mod.strategy(tier))
            def test(spec):
                counter[0] += 1
                run_case(mod, spec, res, root, counter[0], keep_sample=True)

            test()
    except Exception as err:  # harness error, never a violation
        res.errors.append("".join(traceback.format_exception(type(err), err, err.__traceback__))[-3000:])
    finally:
        os.chdir(VERIF)
        shutil.rmtree(root, ignore_errors=True)
    return {"evaluations": res.evaluations, "rejected": res.rejected,
            "inconclusive": res.inconclusive,
            "nontrivial": list(res.nontrivial), "labels": dict(res.labels),
            "samples": res.samples, "violations": res.violations, "errors": res.errors}


def _shrink_worker(mod_name, tier, seed, bucket, out_path, max_examples):
    """Hypothesis generate+shrink restricted to one bucket; writes the smallest failing spec found."""
    import warnings
    warnings.filterwarnings("ignore")
    os.environ.setdefault("TQDM_DISABLE", "1")
    mod = importlib.import_module(mod_name)
    install_log_capture()
    import hypothesis
    from hypothesis import given, settings, HealthCheck, Phase
    root = WORK / f"{mod.PID}_shrink_{os.getpid()}"
    root.mkdir(parents=True, exist_ok=True)
    best = {"size": None}
    counter = [0]

    class _Hit(Exception):
        pass

    @hypothesis.seed(seed * 1000 + 777)
    @settings(max_examples=max_examples, database=None, deadline=None, derandomize=False,
              report_multiple_bugs=False, suppress_health_check=list(HealthCheck),
              phases=[Phase.generate, Phase.shrink])
    @given(mod.strategy(tier))
    def test(spec):
        counter[0] += 1
        res = ShardResult()
        err = run_case(mod, spec, res, root, counter[0])
        if err is not None and err.bucket == bucket:
            size = len(canonical(spec))
            if best["size"] is None or size < best["size"]:
                best["size"] = size
                Path(out_path).write_text(json.dumps({"bucket": bucket, "message": str(err), "spec": spec,
                                                      "shrunk": True}, indent=1, default=str))
            raise _Hit()

    try:
        test()
    except BaseException:
        pass
    finally:
        os.chdir(VERIF)
        shutil.rmtree(root, ignore_errors=True)


def shrink_bucket(mod_name, tier, seed, bucket, current_size, density, budget_s=150):
    """Runs the shrinker in a child process under a wall-clock budget (the budget only bounds the
    effort; running out of it keeps the smallest spec seen so far). Returns a smaller record or None."""
    out_path = WORK / f"shrunk_{os.getpid()}_{abs(hash(bucket)) % 10**8}.json"
    WORK.mkdir(exist_ok=True)
    max_examples = int(min(20000, max(200, 6.0 / max(density, 1e-6))))
    ctx = multiprocessing.get_context("fork")
    proc = ctx.Process(target=_shrink_worker, args=(mod_name, tier, seed, bucket, str(out_path), max_examples))
    proc.start()
    proc.join(budget_s)
    if proc.is_alive():
        proc.terminate()
        proc.join(5)
    record = None
    if out_path.exists():
        try:
            record = json.loads(out_path.read_text())
        except Exception:
            record = None
        out_path.unlink()
    if record and len(canonical(record["spec"])) < current_size:
        return record
    return None


def load_known(pid):
    if not KNOWN_FILE.exists():
        return []
    data = json.loads(KNOWN_FILE.read_text())
    return [e for e in data.get("findings", []) if e["property"] == pid]


def replay_one(mod, spec):
    """Run the plain check on one spec, no Hypothesis. Returns Violation or None."""
    install_log_capture()
    res = ShardResult()
    root = WORK / f"{mod.PID}_replay_{os.getpid()}"
    root.mkdir(parents=True, exist_ok=True)
    try:
        return run_case(mod, spec, res, root, 0)
    finally:
        os.chdir(VERIF)
        shutil.rmtree(root, ignore_errors=True)


def truncate(obj, limit=1500):
    text = canonical(obj)
    if len(text) <= limit:
        return obj
    return {"truncated": text[:limit] + "..."}


def run_property(mod_name, tier, seed, replay=None):
    t0 = time.time()
    os.environ.setdefault("TQDM_DISABLE", "1")
    import warnings
    warnings.filterwarnings("ignore")
    install_log_capture()
    try:
        import polyply  # noqa: F401  (imported before forking so that the shards share it)
    except Exception:
        pass
    mod = importlib.import_module(mod_name)
    pid = mod.PID
    if replay:
        spec = json.loads(Path(replay).read_text())
        if isinstance(spec, dict) and "spec" in spec and "bucket" in spec:
            spec = spec["spec"]
        err = replay_one(mod, spec)
        if err is not None:
            print(f"replay: {err}")
            print(f"VIOLATION property={pid} replay={replay}")
            return 1
        print(f"replay: property {pid} held on {replay}")
        return 0

    known = load_known(pid)
    known_open = [e for e in known if e.get("status") == "open"]
    known_preds = getattr(mod, "KNOWN", {})

    # 1. replay the committed inputs of the known findings (open) and of fixed ones
    known_lines = []
    violations_out = []
    for entry in known:
        path = VERIF / entry["replay"]
        spec = json.loads(path.read_text())
        if isinstance(spec, dict) and "spec" in spec and "bucket" in spec:
            spec = spec["spec"]
        err = replay_one(mod, spec)
        if entry.get("status") == "open":
            if err is not None:
                known_lines.append(f"KNOWN-FINDING: property={pid} {entry['what']}")
        elif err is not None:       # a fixed finding came back
            violations_out.append((err.bucket, spec, f"regression of fixed finding {entry['key']}: {err}", 1))

    # 2. committed regression replays (seeds): must hold
    reg_dir = VERIF / "regress" / pid
    n_regress = 0
    if reg_dir.is_dir():
        for path in sorted(reg_dir.glob("*.json")):
            spec = json.loads(path.read_text())
            if isinstance(spec, dict) and "spec" in spec and "bucket" in spec:
                spec = spec["spec"]
            n_regress += 1
            err = replay_one(mod, spec)
            if err is not None:
                violations_out.append((err.bucket, spec, f"regression input {path.name}: {err}", 1))

    # 3. the search
    shards, n_examples = mod.BUDGET[tier]
    jobs = []
    exhaustive = False
    if hasattr(mod, "enumerate_cases"):
        cases = mod.enumerate_cases(tier, seed)
        exhaustive = getattr(mod, "EXHAUSTIVE", True) and not hasattr(mod, "strategy")
        nproc = min(16, max(1, len(cases)))
        chunks = [cases[i::nproc] for i in range(nproc)]
        jobs += [(mod_name, tier, seed, 100 + i, 0, chunk) for i, chunk in enumerate(chunks) if chunk]
    if hasattr(mod, "strategy"):
        jobs += [(mod_name, tier, seed, i, n_examples, None) for i in range(shards)]
    ctx = multiprocessing.get_context("fork")
    with ctx.Pool(min(16, len(jobs))) as pool:
        results = pool.map(_shard, jobs, chunksize=1)

    evaluations = sum(r["evaluations"] for r in results)
    rejected = sum(r["rejected"] for r in results)
    inconclusive = sum(r["inconclusive"] for r in results)
    nontrivial = set()
    labels = Counter()
    samples = []
    errors = []
    merged = {}
    for r in results:
        nontrivial.update(r["nontrivial"])
        labels.update(r["labels"])
        samples += r["samples"]
        errors += r["errors"]
        for bucket, (size, spec, msg, count) in r["violations"].items():
            old = merged.get(bucket)
            if old is None:
                merged[bucket] = [size, spec, msg, count]
            else:
                old[3] += count
                if size < old[0]:
                    old[0], old[1], old[2] = size, spec, msg

    # 4. classify violations: known (bucket + predicate) or new
    n_known_hits = 0
    for bucket, (size, spec, msg, count) in sorted(merged.items()):
        matched = None
        for entry in known_open:
            pred = known_preds.get(entry["key"])
            want = entry.get("bucket")
            bucket_ok = want == "*" or bucket == want or (isinstance(want, list) and bucket in want)
            if bucket_ok and (pred is None or pred(spec)):
                matched = entry
                break
        if matched:
            n_known_hits += count
            continue
        violations_out.append((bucket, spec, msg, count))

    # 5. shrink new violations with Hypothesis (thorough tier, or VERIF_SHRINK=1); bounded effort
    if violations_out and hasattr(mod, "strategy") and (tier == "thorough" or os.environ.get("VERIF_SHRINK")):
        shrunk = []
        for bucket, spec, msg, count in violations_out[:4]:
            if msg.startswith("regression") or bucket not in merged:
                shrunk.append((bucket, spec, msg, count))
                continue
            rec = shrink_bucket(mod_name, tier, seed, bucket, len(canonical(spec)), count / max(evaluations, 1))
            if rec:
                shrunk.append((bucket, rec["spec"], rec["message"] + " [shrunk by Hypothesis]", count))
            else:
                shrunk.append((bucket, spec, msg, count))
        violations_out = shrunk + violations_out[4:]

    rc = 0
    REPLAYS.joinpath(pid).mkdir(parents=True, exist_ok=True)
    EVIDENCE.mkdir(parents=True, exist_ok=True)
    for bucket, spec, msg, count in violations_out:
        h = hashlib.sha256(bucket.encode()).hexdigest()[:10]
        path = REPLAYS / pid / f"{h}.json"
        path.write_text(json.dumps({"bucket": bucket, "message": msg, "count": count, "spec": spec},
                                   indent=1, default=str))
        print(f"violation bucket={bucket} count={count}: {msg[:300]}")
        try:
            shown = path.relative_to(VERIF)
        except ValueError:
            shown = path
        print(f"VIOLATION property={pid} replay={shown}")
        rc = 1
    for line in known_lines:
        print(line)

    if errors:
        print("HARNESS ERROR in", pid, file=sys.stderr)
        for e in errors[:3]:
            print(e, file=sys.stderr)
        if rc == 0:
            rc = 2

    rnd = random.Random(seed)
    rnd.shuffle(samples)
    coverage = {
        "evaluations": evaluations,
        "distinct_nontrivial": len(nontrivial),
        "rule": mod.RULE,
        "samples": [truncate(s) for s in samples[:4]],
        "classes": dict(sorted(labels.items())),
        "rejected_clean": rejected,
        "inconclusive": inconclusive,
        "known_finding_hits": n_known_hits,
        "regression_inputs_replayed": n_regress,
        "violation_buckets": [v[0] for v in violations_out],
        "exhaustive": bool(exhaustive),
        "shards": len(jobs),
    }
    extra = getattr(mod, "extra_coverage", None)
    if extra:
        coverage.update(extra(tier))
    evidence = {
        "property_id": pid, "tier": tier, "seed": seed, "level": mod.LEVEL,
        "coverage": coverage,
        "assumptions": list(getattr(mod, "ASSUMPTIONS", [])),
        "wall_s": round(time.time() - t0, 2),
        "violations": len(violations_out),
    }
    EVIDENCE.mkdir(exist_ok=True)
    try:
        (EVIDENCE / f"{pid}.json").write_text(json.dumps(evidence, indent=1, default=str))
    except Exception as err:  # pragma: no cover
        print("cannot write evidence:", err, file=sys.stderr)
        rc = rc or 2
    print(f"{pid} tier={tier} seed={seed}: {evaluations} cases, {len(nontrivial)} distinct non-trivial, "
          f"{rejected} cleanly rejected, {inconclusive} inconclusive, {len(violations_out)} violation bucket(s), "
          f"{evidence['wall_s']} s")
    if evaluations == 0 or (len(nontrivial) < 2 and rc == 0):
        print("HARNESS ERROR: generator produced no non-trivial cases", file=sys.stderr)
        rc = 2
    return rc
