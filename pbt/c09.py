"""C09 - parameters are resolved as GROMACS preprocessing would resolve them."""
import itertools
import math

import hypothesis.strategies as st

from .core import Violation, Reject, crash

PID = "C09"
LEVEL = "exploration"
RULE = ("generated topologies: 3-6 atom types (optionally OPLS bond types with _FF_OPLS defined), bonded type "
        "tables for bonds/angles/constraints/dihedrals with exact, reversed and wildcard (all 16 masks, both "
        "directions) entries of 1-3 terms, molecule types whose interactions are written without parameters in "
        "either direction, 1-4 instances, #define macros as parameters, atomtype C6/C12 or sigma/epsilon tables "
        "and random nonbond_params subsets; after Topology.preprocess every instance is compared with an "
        "independent resolver R3 (set of tied-best entries) and the non-bonded table with the stated laws; "
        "additionally the 16 masks x 2 listing directions x {competing exact entry present, absent} grid is "
        "enumerated in every run. non-trivial = a wildcard entry competes with a more specific one, or >=2 "
        "instances with a multi-term entry; distinct = spec hash")
ASSUMPTIONS = ["which formula belongs to which comb-rule number is not asserted",
               "ties between equally specific wildcard entries may resolve to either entry",
               "OSError is the documented 'no matching bonded type' channel"]
RULE += (' One [ nonbond_params ] table in four repeats a pair further down (either order of the types): the later line counts, as in grompp.')
BUDGET = {"quick": (16, 400), "thorough": (16, 8000)}
EXHAUSTIVE = False

TYPES = ["CA", "CB", "CC", "CD", "CE", "CF"]
NAT = {"bonds": 2, "constraints": 2, "angles": 3, "dihedrals": 4}


def _num(draw, lo=1, hi=9999):
    return str(draw(st.integers(lo, hi)) / 100.0)


@st.composite
def _strategy(draw):
    ntypes = draw(st.integers(3, 6))
    types = TYPES[:ntypes]
    if draw(st.integers(0, 5)) == 0:
        # numeric type names, as some converters emit them: a name may then read like a function type or a
        # multiplicity on the same table line
        types = [str(i + 1) for i in range(min(3, ntypes))] + TYPES[3:ntypes]
    opls = draw(st.integers(0, 4)) == 0
    # with bond types (OPLS style) a bond-type name may coincide with the name of another atom type
    bpool = ["BA", "BB", "BC"] + (types[:2] if opls and draw(st.booleans()) else [])
    btypes = {t: (draw(st.sampled_from(bpool)) if opls else t) for t in types}
    comb = draw(st.sampled_from([1, 2, 3]))
    atomtypes = []

    def nbval():
        # C6/C12 tables span many orders of magnitude (a C12 of 3.4e-9 is an ordinary value)
        val = draw(st.integers(1, 9999)) / 1000.0
        if comb == 1 and draw(st.booleans()):
            val = float(f"{val}e-{draw(st.integers(1, 9))}")
        return val

    for t in types:
        atomtypes.append({"name": t, "btype": btypes[t], "mass": draw(st.sampled_from([12.0, 36.0, 72.0])),
                          "nb1": nbval(), "nb2": nbval()})
    if draw(st.integers(0, 3)) == 0:
        # a type without Lennard-Jones interaction (water hydrogen, dummy site): "0 0", or a size with epsilon 0
        zero = draw(st.sampled_from(atomtypes))
        zero["nb2"] = 0.0
        if comb == 1 or draw(st.booleans()):
            zero["nb1"] = 0.0
    keyspace = sorted(set(btypes.values()))
    nonbond = []
    for a, b in itertools.combinations_with_replacement(types, 2):
        if draw(st.integers(0, 3)) == 0:
            pair = [a, b] if draw(st.booleans()) else [b, a]
            nonbond.append(pair + [nbval(), nbval()])
    if nonbond and draw(st.integers(0, 3)) == 0:
        # a pair stated again further down (the user's own line after the force field's), in either order of the two
        # types: as in grompp the later line is the one in force
        a, b = draw(st.sampled_from(nonbond))[:2]
        nonbond.append(([a, b] if draw(st.booleans()) else [b, a]) + [nbval(), nbval()])
    defines = {}
    if draw(st.booleans()):
        defines["gb_1"] = [_num(draw), _num(draw)]
        defines["ga_2"] = [_num(draw), _num(draw)]
        # single-valued macros, usable several times in one line (POSRES_FC POSRES_FC POSRES_FC)
        defines["FC_A"] = [_num(draw)]
        defines["FC_B"] = [_num(draw)]
        # a macro that stands for the whole parameter list, function type included
        defines["gb_full"] = ["1", _num(draw), _num(draw)]
    stale = {}
    if defines and draw(st.integers(0, 2)) == 0:
        for name in draw(st.lists(st.sampled_from(sorted(defines)), min_size=1, max_size=3, unique=True)):
            stale[name] = (["1"] if name == "gb_full" else []) + [_num(draw) for _ in range(len(defines[name]) - (1 if name == "gb_full" else 0))]
    tables = {sec: [] for sec in NAT}
    mols = []
    for mi in range(draw(st.sampled_from([1, 1, 2, 3]))):
        # chain of 4-6 atoms
        natoms = draw(st.integers(4, 6))
        atoms = [draw(st.sampled_from(types)) for _ in range(natoms)]
        inter = []

        def typed(idxs):
            return [btypes[atoms[i]] for i in idxs]

        for sec, n in NAT.items():
            windows = [list(range(i, i + n)) for i in range(natoms - n + 1)]
            for win in windows:
                if draw(st.integers(0, 2)) == 0:
                    continue
                if sec == "constraints" and draw(st.booleans()):
                    continue
                listed = win if draw(st.booleans()) else win[::-1]
                mode = draw(st.sampled_from(["typed", "typed", "typed", "explicit", "macro", "macro_mix"]))
                if mode == "macro_mix":
                    if defines:
                        nval = 1 if sec == "constraints" else 2
                        toks = [draw(st.sampled_from(["FC_A", "FC_A", "FC_B", _num(draw)])) for _ in range(nval)]
                        inter.append({"sec": sec, "atoms": listed, "mode": "macro",
                                      "params": [{"bonds": "1", "constraints": "1", "angles": "1", "dihedrals": "1"}[sec]]
                                      + toks + (["2"] if sec == "dihedrals" else [])})
                        continue
                    mode = "explicit"
                func = {"bonds": "1", "constraints": "1", "angles": "1", "dihedrals": draw(st.sampled_from(["9", "1"]))}[sec]
                if mode == "explicit" or (mode == "macro" and not defines) or (mode == "macro" and sec not in ("bonds", "angles")):
                    params = [func] + [_num(draw) for _ in range(2)] + (["2"] if sec == "dihedrals" else [])
                    inter.append({"sec": sec, "atoms": listed, "params": params, "mode": "explicit"})
                elif mode == "macro":
                    if draw(st.integers(0, 3)) == 0:
                        inter.append({"sec": sec, "atoms": listed, "params": ["gb_full"], "mode": "macro"})
                        continue
                    inter.append({"sec": sec, "atoms": listed, "params": [func, "gb_1" if sec == "bonds" else "ga_2"],
                                  "mode": "macro"})
                else:
                    inter.append({"sec": sec, "atoms": listed, "params": [func], "mode": "typed"})
                    # table entries that may match
                    key = typed(win)
                    nentries = draw(st.integers(0, 3))
                    for _ in range(nentries):
                        k = list(key) if draw(st.booleans()) else list(key[::-1])
                        if sec == "dihedrals":
                            mask = draw(st.integers(0, 15))
                            k = ["X" if (mask >> i) & 1 else v for i, v in enumerate(k)]
                        elif draw(st.integers(0, 5)) == 0:
                            k[draw(st.integers(0, n - 1))] = draw(st.sampled_from(keyspace))
                        nterm = draw(st.sampled_from([1, 1, 2, 3])) if sec == "dihedrals" else 1
                        terms = []
                        for m in range(nterm):
                            if sec == "dihedrals":
                                terms.append([func, _num(draw), _num(draw), str(m + 1)])
                            elif sec == "constraints":
                                terms.append([func, _num(draw)])
                            else:
                                terms.append([func, _num(draw), _num(draw)])
                        if sec == "dihedrals" and func == "9" and len(terms) >= 2 and draw(st.integers(0, 3)) == 0:
                            # the same line twice: two equal terms of a multi-term dihedral type add up
                            terms.insert(draw(st.integers(0, len(terms))), list(draw(st.sampled_from(terms))))
                        if any(e["key"] == k for e in tables[sec]):
                            continue
                        tables[sec].append({"key": k, "terms": terms,
                                            "ifdef": draw(st.sampled_from([None, None, None, "FLEX"]))})
        mols.append({"name": f"MOL{mi}", "atoms": atoms, "inter": inter, "count": draw(st.integers(0 if mi else 1, 4))})
    order = list(draw(st.permutations(range(len(mols)))))
    if draw(st.integers(0, 2)) == 0:
        # a molecule name may stand on several lines of [ molecules ], also with other names in between
        order.insert(draw(st.integers(0, len(order))), draw(st.sampled_from(order)))
    return {"comb": comb, "gen_pairs": draw(st.booleans()), "opls": opls, "atomtypes": atomtypes,
            "nonbond": nonbond, "mols": mols, "mol_order": order, "tables": tables, "defines": defines, "stale_defines": stale,
            "rng": draw(st.integers(0, 2**31 - 1))}


def strategy(tier):
    return _strategy()


def enumerate_cases(tier, seed):
    """the 16 wildcard masks x both listing directions x table key direction x competing exact entry."""
    cases = []
    for mask in range(16):
        for listed_rev in (False, True):
            for key_rev in (False, True):
                for exact in (False, True):
                    types = ["CA", "CB", "CC", "CD"]
                    key = types[::-1] if key_rev else list(types)
                    key = ["X" if (mask >> i) & 1 else v for i, v in enumerate(key)]
                    tables = {"bonds": [], "constraints": [], "angles": [],
                              "dihedrals": [{"key": key, "terms": [["9", "180.0", "10.0", "2"], ["9", "0.0", "5.0", "3"]],
                                             "ifdef": None}]}
                    if exact and mask != 0:
                        tables["dihedrals"].append({"key": list(types), "terms": [["9", "90.0", "1.0", "1"]], "ifdef": None})
                    cases.append({"comb": 2, "gen_pairs": True, "opls": False,
                                  "atomtypes": [{"name": t, "btype": t, "mass": 12.0, "nb1": 0.3, "nb2": 0.5} for t in types],
                                  "nonbond": [],
                                  "mols": [{"name": "MOL0", "atoms": list(types), "count": 2,
                                            "inter": [{"sec": "dihedrals", "atoms": [3, 2, 1, 0] if listed_rev else [0, 1, 2, 3],
                                                       "params": ["9"], "mode": "typed"}]}],
                                  "mol_order": [0],
                                  "tables": tables, "defines": {}, "rng": 1, "grid": True})
    return cases


def render(spec):
    lines = []
    if spec["opls"]:
        lines.append("#define _FF_OPLS")
    for name, values in spec.get("stale_defines", {}).items():
        # an earlier definition of a macro that is defined again below (a force-field default overridden by the
        # user): the later definition is the one in force
        lines.append(f"#define {name} " + " ".join(values))
    for name, values in spec["defines"].items():
        lines.append(f"#define {name} " + " ".join(values))
    # the fudge fields (and, for gen-pairs no, the gen-pairs field) of [ defaults ] are optional
    dform = spec.get("rng", 0) % 4
    dline = f"1 {spec['comb']} {'yes' if spec['gen_pairs'] else 'no'} 1.0 1.0"
    if dform == 1:
        dline = f"1 {spec['comb']} {'yes' if spec['gen_pairs'] else 'no'}"
    elif dform == 2:
        dline = f"1 {spec['comb']} {'yes' if spec['gen_pairs'] else 'no'} 0.5"
    elif dform == 3 and not spec["gen_pairs"]:
        dline = f"1 {spec['comb']}"
    lines += ["[ defaults ]", dline, "[ atomtypes ]"]
    for at in spec["atomtypes"]:
        if spec["opls"]:
            lines.append(f"{at['name']} {at['btype']} 6 {at['mass']} 0.0 A {at['nb1']} {at['nb2']}")
        else:
            lines.append(f"{at['name']} {at['mass']} 0.0 A {at['nb1']} {at['nb2']}")
    if spec["nonbond"]:
        lines.append("[ nonbond_params ]")
        for a, b, nb1, nb2 in spec["nonbond"]:
            lines.append(f"{a} {b} 1 {nb1} {nb2}")
    secname = {"bonds": "bondtypes", "angles": "angletypes", "constraints": "constrainttypes",
               "dihedrals": "dihedraltypes"}
    for sec, entries in spec["tables"].items():
        if not entries:
            continue
        lines.append(f"[ {secname[sec]} ]")
        for e in entries:
            if e["ifdef"]:
                lines.append(f"#ifdef {e['ifdef']}")
            for term in e["terms"]:
                lines.append(" ".join(e["key"] + term))
            if e["ifdef"]:
                lines.append("#endif")
    for mol in spec["mols"]:
        lines += ["[ moleculetype ]", f"{mol['name']} 1", "[ atoms ]"]
        for i, t in enumerate(mol["atoms"], start=1):
            lines.append(f"{i} {t} 1 RES A{i} {i} 0.0 12.0")
        for sec in NAT:
            items = [it for it in mol["inter"] if it["sec"] == sec]
            if items:
                lines.append(f"[ {sec} ]")
                for it in items:
                    lines.append(" ".join([str(a + 1) for a in it["atoms"]] + it["params"]))
    lines += ["[ system ]", "test", "[ molecules ]"]
    for mi in spec["mol_order"]:
        mol = spec["mols"][mi]
        if mol["count"]:
            lines.append(f"{mol['name']} {mol['count']}")
    return "\n".join(lines) + "\n"


def resolve(spec, mol, it):
    """R3: list of allowed term lists (each a list of parameter lists) or None if nothing matches."""
    btype = {a["name"]: a["btype"] for a in spec["atomtypes"]}
    t = [btype[mol["atoms"][i]] for i in it["atoms"]]
    entries = spec["tables"][it["sec"]]
    exact = [e for e in entries if e["key"] == t]
    if exact:
        return [exact[0]["terms"]], 0, False
    rev = [e for e in entries if e["key"] == t[::-1]]
    if rev:
        return [rev[0]["terms"]], 0, False
    if it["sec"] != "dihedrals":
        return None, None, False
    best = None
    cands = []
    for e in entries:
        k = e["key"]
        if "X" not in k:
            continue
        for tt in (t, t[::-1]):
            if all(kk == "X" or kk == v for kk, v in zip(k, tt)):
                rank = k.count("X")
                cands.append((rank, e))
                break
    if not cands:
        return None, None, False
    best = min(r for r, _ in cands)
    allowed = [e["terms"] for r, e in cands if r == best]
    competing = len({r for r, _ in cands}) > 1
    return allowed, best, competing


def check(spec, ctx):
    from polyply.src.topology import Topology
    path = ctx.dir / "sys.top"
    path.write_text(render(spec))
    expect_error = None
    resolved = {}
    competing_any = False
    multi_any = False
    for mi, mol in enumerate(spec["mols"]):
        for n, it in enumerate(mol["inter"]):
            if it["mode"] == "typed":
                allowed, rank, competing = resolve(spec, mol, it)
                resolved[(mi, n)] = allowed
                if allowed is None:
                    expect_error = (mi, n)
                else:
                    competing_any = competing_any or competing
                    multi_any = multi_any or any(len(t) > 1 for t in allowed)
    if spec.get("rng", 1) % 4 == 0 and spec["tables"].get("dihedrals"):
        # an earlier topology in the same process: the same system with a poorer dihedral table (only its
        # least specific entries). What it resolved to says nothing about the topology read afterwards.
        import copy
        poorer = copy.deepcopy(spec)
        most = max((e["key"][:4].count("X") for e in poorer["tables"]["dihedrals"]), default=0)
        poorer["tables"]["dihedrals"] = [e for e in poorer["tables"]["dihedrals"]
                                         if most and e["key"][:4].count("X") == most]
        if len(poorer["tables"]["dihedrals"]) < len(spec["tables"]["dihedrals"]):
            early = ctx.dir / "earlier.top"
            early.write_text(render(poorer))
            try:
                Topology.from_gmx_topfile(str(early), "earlier").preprocess()
            except Exception:
                pass
            ctx.label("after_a_topology_with_a_poorer_dihedral_table")
    try:
        topology = Topology.from_gmx_topfile(str(path), "test")
        topology.preprocess()
    except OSError as err:
        if expect_error is not None:
            ctx.label("no_match_rejected")
            return
        raise Violation("bonded:no_match_although_type_exists", f"{err} :: {render(spec)[-400:]}"[:600])
    except Exception as err:
        raise crash("preprocess:crash", err)
    if expect_error is not None:
        it = spec["mols"][expect_error[0]]["inter"][expect_error[1]]
        raise Violation("bonded:unmatched_interaction_accepted", f"{it} has no bonded type but preprocessing succeeded")
    expanded = [mi for mi in spec["mol_order"] for _ in range(spec["mols"][mi]["count"])]
    if len(topology.molecules) != len(expanded):
        raise Violation("instances:count", f"{len(topology.molecules)} != {len(expanded)}")
    norm = lambda terms: sorted(tuple(_f(p) for p in term) for term in terms)
    for inst, (meta, mi) in enumerate(zip(topology.molecules, expanded)):
        mol = spec["mols"][mi]
        got = {}
        for sec, items in meta.molecule.interactions.items():
            for g in items:
                got.setdefault((sec, tuple(g.atoms)), []).append([str(p) for p in g.parameters])
        wanted_keys = set()
        for n, it in enumerate(mol["inter"]):
            key = (it["sec"], tuple(it["atoms"]))
            wanted_keys.add(key)
            have = got.get(key, [])
            if it["mode"] == "explicit":
                want_sets = [[it["params"]]]
            elif it["mode"] == "macro":
                want_sets = [[[v for tok in it["params"] for v in spec["defines"].get(tok, [tok])]]]
            else:
                want_sets = resolved[(mi, n)]
            same_key = [j for j in mol["inter"] if (j["sec"], tuple(j["atoms"])) == key]
            if len(same_key) > 1:
                continue
            if not any(norm(have) == norm(w) for w in want_sets):
                raise Violation(f"bonded:{it['mode']}_parameters",
                                f"instance {inst} ({mol['name']}) {it['sec']} atoms {it['atoms']} ({it['mode']}): got {have} "
                                f"expected one of {want_sets}")
        extra = [k for k in got if k not in wanted_keys and got[k]]
        if extra:
            raise Violation("bonded:unexplained_interaction", f"instance {inst} ({mol['name']}) carries interactions that its "
                                                              f"molecule type does not define: {extra[:3]} -> {[got[k] for k in extra[:3]]}")
    # non-bonded table
    nb = topology.nonbond_params
    types = [a["name"] for a in spec["atomtypes"]]
    at = {a["name"]: a for a in spec["atomtypes"]}
    explicit = {frozenset((a, b)): (nb1, nb2) for a, b, nb1, nb2 in spec["nonbond"]}

    def conv(c6, c12):
        if spec["comb"] != 1:
            return c6, c12
        if c6 == 0 and c12 == 0:
            return 0.0, 0.0
        return (c12 / c6) ** (1.0 / 6.0), c6 ** 2 / (4 * c12)

    for a, b in itertools.combinations_with_replacement(types, 2):
        key = frozenset((a, b))
        if key in explicit:
            want = conv(*explicit[key])
        elif a == b:
            want = conv(at[a]["nb1"], at[a]["nb2"])
        else:
            want = None
        if key not in nb:
            if want is not None or spec["gen_pairs"]:
                raise Violation("nonbonded:missing_pair", f"{a}-{b}")
            continue
        got = (nb[key]["nb1"], nb[key]["nb2"])
        if want is not None:
            if not all(math.isclose(g, w, rel_tol=1e-9) for g, w in zip(got, want)):
                kind = "override" if key in explicit else "self_term"
                raise Violation(f"nonbonded:{kind}", f"{a}-{b}: {got} expected {want}")
            if spec["comb"] == 1:
                src = explicit.get(key) or (at[a]["nb1"], at[a]["nb2"])
                sig, eps = got
                if not (math.isclose(4 * eps * sig ** 6, src[0], rel_tol=1e-9)
                        and math.isclose(4 * eps * sig ** 12, src[1], rel_tol=1e-9)):
                    raise Violation("nonbonded:conversion", f"{a}-{b}: sigma/epsilon {got} do not reproduce C6/C12 {src}")
        elif not spec["gen_pairs"]:
            raise Violation("nonbonded:generated_without_gen_pairs", f"{a}-{b}")
    # generated pairs are made from the atom types: an explicit self entry replaces the self term only,
    # so the same topology without the explicit self lines has the same generated cross terms
    selfs = [e for e in spec["nonbond"] if e[0] == e[1]]
    if spec["gen_pairs"] and selfs:
        import copy
        other = copy.deepcopy(spec)
        other["nonbond"] = [e for e in spec["nonbond"] if e[0] != e[1]]
        path2 = ctx.dir / "sys_noself.top"
        path2.write_text(render(other))
        try:
            topology2 = Topology.from_gmx_topfile(str(path2), "test")
            topology2.preprocess()
        except Exception as err:
            raise crash("preprocess:crash_without_self_lines", err)
        nb2 = topology2.nonbond_params
        for a, b in itertools.combinations(types, 2):
            key = frozenset((a, b))
            if key in explicit or key not in nb or key not in nb2:
                continue
            one, two = (nb[key]["nb1"], nb[key]["nb2"]), (nb2[key]["nb1"], nb2[key]["nb2"])
            if not all(math.isclose(x, y, rel_tol=1e-9) for x, y in zip(one, two)):
                raise Violation("nonbonded:generated_pair_depends_on_explicit_self",
                                f"{a}-{b}: {one} with the explicit self entries {selfs}, {two} without them")
        ctx.label("explicit_self_with_generated_pairs")
    if competing_any:
        ctx.label("wildcard_competes")
    if multi_any:
        ctx.label("multi_term")
    if spec["opls"]:
        ctx.label("opls_bond_types")
    if spec.get("grid"):
        ctx.label("mask_grid")
    if any(i["mode"] == "macro" for m in spec["mols"] for i in m["inter"]):
        ctx.label("macro")
    if len([m for m in spec["mols"] if m["count"]]) >= 2:
        ctx.label("several_molecule_types")
    ctx.nontrivial = competing_any or (len(expanded) >= 2 and multi_any)


def _f(p):
    try:
        return round(float(p), 9)
    except ValueError:
        return p
