"""C18 - build options select exactly the molecules and residues they name."""
import numpy as np
import hypothesis.strategies as st

from . import gc, c03
from .core import Violation, Reject, crash

PID = "C18"
LEVEL = "exploration"
RULE = ("four kinds of generated cases on C03 systems with repeated molecule names: (1) build files with 1-3 "
        "[ molecule ] blocks (overlapping / adjacent half-open index ranges, also covering molecules of other "
        "names) holding geometry, rw_restriction and distance_restraints directives with half-open resid ranges - "
        "after a full gen_coords run the node attributes of every molecule are compared with an independent "
        "selection (name and index, resname and resid); (2) -start specifications with every subset of fields - "
        "the residue placed with a start placement must be the first residue matching the specification; "
        "(3) -lig specifications - after the run the ligand residue sits one step (minimum image) from its host "
        "residue, hosts have their original residues, the molecule list is unchanged; (4) one to three -split specifications with new residue names from a shared pool, alone or together with a build file whose directives name the new residues - "
        "the new residues partition the atoms, named atoms carry the new residue name, the .gro lists every atom "
        "once in the original order. non-trivial = two [ molecule ] blocks for one name with different ranges, a "
        "block covering a molecule of another name, a specification with an omitted field, a ligand, or a split; "
        "distinct = spec hash")
ASSUMPTIONS = ["a [ molecule ] block that also covers indices of other molecule names must leave those molecules "
               "untouched (and must not be rejected because of them)",
               "time-outs are inconclusive"]
RULE += (' A third of the eligible -split cases supply (-c) and -ignore the molecules of the first [ molecules ] line: they are split like all others.')
BUDGET = {"quick": (16, 90), "thorough": (16, 1200)}


def _mol_names(spec):
    return [n for n, c in spec["molecules"] for _ in range(c)]


@st.composite
def _parse_case(draw):
    spec = draw(gc.system(max_moltypes=3, max_res=6, max_total_mol=6, allow_vs=False,
                          shapes=("linear",)))
    by_name = {mt["name"]: mt for mt in spec["moltypes"]}
    names = _mol_names(spec)
    nmol = len(names)
    edge = gc.dilute_box(spec) + 1.0
    build, blocks = [], []
    used_rw = set()
    for _ in range(draw(st.integers(1, 3))):
        name = draw(st.sampled_from(sorted(set(names))))
        lo = draw(st.integers(0, nmol - 1))
        hi = draw(st.integers(lo + 1, nmol))
        mt = by_name[name]
        nres = len(mt["residues"])
        build += ["[ molecule ]", f"{name} {lo} {hi}"]
        block = {"name": name, "lo": lo, "hi": hi, "directives": []}
        for _k in range(draw(st.integers(1, 2))):
            kind = draw(st.sampled_from(["sphere", "rectangle", "cylinder", "rw", "dist"]))
            resname = draw(st.sampled_from(sorted({r["resname"] for r in mt["residues"]})))
            r0 = draw(st.integers(1, nres))
            r1 = draw(st.integers(r0 + 1, nres + 1))
            if kind in ("sphere", "rectangle", "cylinder"):
                centre = [edge / 2.0] * 3
                size = round(0.45 * edge + draw(st.integers(0, 9)) / 100.0, 2)
                params = {"sphere": [size], "cylinder": [size, size], "rectangle": [size, size, size]}[kind]
                build += [f"[ {kind} ]", f"{resname} {r0} {r1} in " + " ".join(repr(float(c)) for c in centre) + " "
                          + " ".join(repr(float(p)) for p in params)]
                block["directives"].append({"kind": kind, "resname": resname, "r0": r0, "r1": r1, "params": params,
                                            "centre": centre})
            elif kind == "rw":
                covered = {i for i in range(lo, hi) if names[i] == name}
                if covered & used_rw or any(d["kind"] == "rw" for d in block["directives"]):
                    continue
                used_rw |= covered
                angle = draw(st.sampled_from([120.0, 150.0]))
                build += ["[ rw_restriction ]", f"{resname} {r0} {r1} 0.0 0.0 1.0 {angle!r}"]
                block["directives"].append({"kind": "rw", "resname": resname, "r0": r0, "r1": r1, "angle": angle})
            else:
                if nres < 3 or any(d["kind"] == "dist" for b in blocks + [block] for d in b["directives"]):
                    continue
                a = 0
                b = draw(st.integers(2, nres - 1))
                dist = round(0.3 + 0.15 * b, 2)
                build += ["[ distance_restraints ]", f"{a} {b} {dist!r} 0.5"]
                block["directives"].append({"kind": "dist", "a": a, "b": b, "dist": dist, "tol": 0.5})
        blocks.append(block)
    spec["build"] = build
    spec["blocks"] = blocks
    spec["opts"] = {"box": [edge, edge, edge]}
    spec["kind"] = "parse"
    return spec


def _mixed_case_names(draw, spec):
    """one system in four: residue names with lower-case letters (OHter, mPEG ... are ordinary names)"""
    if draw(st.integers(0, 3)) > 0:
        return spec
    import copy
    spec = copy.deepcopy(spec)
    for mt in spec["moltypes"]:
        for r in mt["residues"]:
            r["resname"] = r["resname"][0] + r["resname"][1:].lower() + "ter"[:5 - len(r["resname"])]
    spec["mixed_case_names"] = True
    return spec


@st.composite
def _start_case(draw):
    spec = _mixed_case_names(draw, draw(gc.system(max_moltypes=2, max_res=6, max_total_mol=5, allow_vs=False)))
    used = sorted({n for n, _ in spec["molecules"]})
    if len(used) == 2 and draw(st.booleans()):
        # molecule names of which one is the beginning (or the end) of the other
        import copy
        spec = copy.deepcopy(spec)
        long_name = draw(st.sampled_from([used[0] + "X", "X" + used[0], used[0] + "2"]))
        which = used[1]
        for mt in spec["moltypes"]:
            if mt["name"] == which:
                mt["name"] = long_name
        spec["molecules"] = [[long_name if n == which else n, c] for n, c in spec["molecules"]]
        spec["nested_names"] = True
    by_name = {mt["name"]: mt for mt in spec["moltypes"]}
    names = _mol_names(spec)
    edge = gc.dilute_box(spec)
    mi = draw(st.integers(0, len(names) - 1))
    if spec.get("nested_names") and draw(st.integers(0, 3)) > 0:
        # mostly the longer name is the one written in the specification
        mi = draw(st.sampled_from([i for i, n in enumerate(names) if n == long_name]))
    mt = by_name[names[mi]]
    ridx = draw(st.integers(0, len(mt["residues"]) - 1))
    resname = mt["residues"][ridx]["resname"]
    use = {"molname": True, "mol_idx": draw(st.booleans()), "resname": draw(st.booleans()), "resid": draw(st.booleans())}
    if spec.get("nested_names") and draw(st.booleans()):
        use["mol_idx"] = False
    text = names[mi]
    if use["mol_idx"]:
        text += f"#{mi}"
    if use["resname"] or use["resid"]:
        text += "-" + (resname if use["resname"] else "")
        if use["resid"]:
            text += f"#{ridx + 1}"
    spec["opts"] = {"box": [edge, edge, edge], "start": [text]}
    spec["start"] = {"mol": names[mi], "mol_idx": mi if use["mol_idx"] else None,
                     "resname": resname if use["resname"] else None, "resid": ridx + 1 if use["resid"] else None}
    spec["kind"] = "start"
    return spec


@st.composite
def _lig_case(draw):
    spec = _mixed_case_names(draw, draw(gc.system(max_moltypes=2, max_res=5, max_total_mol=3, allow_vs=False)))
    types = [a["name"] for a in spec["atomtypes"]]
    # the ligand molecule has one to three one-bead residues; a specification without residue part selects all
    nlres = draw(st.sampled_from([1, 2, 3]))
    lig_residues = [{"resname": rn, "atoms": [{"name": rn.lower(), "type": types[0], "mass": 18.0}], "bonds": [], "vs": None}
                    for rn in ["W", "V", "U"][:nlres]]
    spec["moltypes"].append({"name": "SOL", "residues": lig_residues,
                             "res_edges": [[i, i + 1] for i in range(nlres - 1)], "shape": "linear"})
    nlig = draw(st.integers(1, 3))
    pos = draw(st.integers(0, len(spec["molecules"])))
    spec["molecules"].insert(pos, ["SOL", nlig])
    names = _mol_names(spec)
    by_name = {mt["name"]: mt for mt in spec["moltypes"]}
    hosts = [i for i, n in enumerate(names) if n != "SOL"]
    host = draw(st.sampled_from(hosts))
    hmt = by_name[names[host]]
    ridx = draw(st.integers(0, len(hmt["residues"]) - 1))
    lig = draw(st.sampled_from([i for i, n in enumerate(names) if n == "SOL"]))
    with_resname = draw(st.booleans())
    host_spec = f"{names[host]}#{host}-{hmt['residues'][ridx]['resname'] if with_resname else ''}#{ridx + 1}"
    whole = draw(st.integers(0, 2)) > 0
    lig_spec = f"SOL#{lig}" if whole else f"SOL#{lig}-W#1"
    edge = gc.dilute_box(spec)
    spec["opts"] = {"box": [edge, edge, edge], "ligands": [[host_spec, lig_spec]],
                    "step_fudge": draw(st.sampled_from([0.8, 1.0]))}
    spec["lig"] = {"host": host, "host_resid": ridx + 1, "lig": lig, "lig_resids": list(range(1, nlres + 1)) if whole else [1]}
    others = [i for i, n in enumerate(names) if n == "SOL" and i != lig]
    if others and draw(st.booleans()):
        # a second -lig option for the same host molecule: another ligand molecule at this or another residue
        lig2 = draw(st.sampled_from(others))
        ridx2 = draw(st.integers(0, len(hmt["residues"]) - 1))
        spec["opts"]["ligands"].append([f"{names[host]}#{host}-#{ridx2 + 1}", f"SOL#{lig2}-W#1"])
        spec["lig2"] = {"host": host, "host_resid": ridx2 + 1, "lig": lig2, "lig_resids": [1]}
    spec["kind"] = "lig"
    return spec


@st.composite
def _split_case(draw):
    spec = draw(gc.system(max_moltypes=2, max_res=5, max_total_mol=4, allow_vs=False))
    cands = sorted({r["resname"]: r for mt in spec["moltypes"] for r in mt["residues"] if len(r["atoms"]) >= 2}.items())
    if not cands:
        spec["moltypes"][0]["residues"][0]["atoms"].append({"name": "zz", "type": spec["atomtypes"][0]["name"], "mass": 36.0})
        spec["moltypes"][0]["residues"][0]["bonds"].append([0, len(spec["moltypes"][0]["residues"][0]["atoms"]) - 1, 0.3])
        cands = sorted({r["resname"]: r for mt in spec["moltypes"] for r in mt["residues"] if len(r["atoms"]) >= 2}.items())
    # one to three split strings for different residue names; the names of the new residues come from a
    # small pool and may be reused by different strings
    chosen = draw(st.lists(st.sampled_from(cands), min_size=1, max_size=3, unique_by=lambda c: c[0]))
    for _rn, rd in chosen:
        if len(rd["atoms"]) >= 3 and draw(st.integers(0, 2)) == 0:
            # atom names of which one is the beginning of others (C1, C10, C11 ...)
            stem = rd["atoms"][0]["name"]
            for k in range(2, len(rd["atoms"])):
                rd["atoms"][k]["name"] = f"{stem}{k - 2}"
            spec["nested_atom_names"] = True
    # residue numbers with gaps (1, 2, 5, ...) in some molecule types, and new residue names that may equal
    # the name of another residue of the system
    for mt in spec["moltypes"]:
        if draw(st.booleans()):
            resids, cur = [], 0
            for _ in mt["residues"]:
                cur += draw(st.sampled_from([1, 1, 2, 3]))
                resids.append(cur)
            mt["resids"] = resids
    other_names = sorted({r["resname"] for mt in spec["moltypes"] for r in mt["residues"]} - {c[0] for c in chosen})
    strings, splits = [], []
    for resname, rd in chosen:
        n = len(rd["atoms"])
        ngroups = draw(st.integers(2, min(3, n)))
        order = list(draw(st.permutations(range(n))))
        cuts = sorted(draw(st.lists(st.integers(1, n - 1), min_size=ngroups - 1, max_size=ngroups - 1, unique=True)))
        groups = [sorted(order[i:j]) for i, j in zip([0] + cuts, cuts + [n])]
        newnames = draw(st.lists(st.sampled_from(["X1", "X2", "X3"] + other_names), min_size=ngroups, max_size=ngroups, unique=True))
        strings.append(f"{resname}:" + ":".join(nn + "-" + ",".join(rd["atoms"][i]["name"] for i in grp)
                                                for nn, grp in zip(newnames, groups)))
        splits.append({"resname": resname, "groups": {nn: [rd["atoms"][i]["name"] for i in grp]
                                                      for nn, grp in zip(newnames, groups)}})
    edge = gc.dilute_box(spec)
    spec["opts"] = {"box": [edge, edge, edge], "split": strings}
    spec["split"] = splits
    spec["kind"] = "split"
    first = spec["molecules"][0][0]
    if len(spec["molecules"]) >= 2 and all(n != first for n, _ in spec["molecules"][1:]) and draw(st.integers(0, 2)) == 0:
        # the molecules of the first [ molecules ] line are there already (-c) and are left alone (-ignore): their
        # residues are split like everybody else's
        from . import c03
        mt = [m for m in spec["moltypes"] if m["name"] == first][0]
        spec["coords"] = draw(c03.supplied_coords(spec, [edge, edge, edge], mode="c",
                                                  nres=len(mt["residues"]) * spec["molecules"][0][1]))
        if spec["coords"] and spec["coords"]["nres"] == len(mt["residues"]) * spec["molecules"][0][1]:
            spec["opts"]["ignore"] = [first]
            spec["split_with_ignored"] = True
        else:
            spec["coords"] = None
    return spec


@st.composite
def _split_lig_case(draw):
    """-split (which renumbers the residues of every molecule from 0) combined with a -lig / -start
    specification that names the new residue name and residue id 0"""
    sig = draw(st.sampled_from([0.3, 0.43]))
    atomtypes = [{"name": "TA", "mass": 36.0, "sigma": sig, "eps": 2.0}, {"name": "TB", "mass": 36.0, "sigma": 0.3, "eps": 2.0}]
    rs = {"resname": "RS", "atoms": [{"name": "s1", "type": "TA", "mass": 36.0}, {"name": "s2", "type": "TB", "mass": 36.0}],
          "bonds": [[0, 1, 0.3]], "vs": None}
    rb = {"resname": "RB", "atoms": [{"name": "b1", "type": "TA", "mass": 36.0}], "bonds": [], "vs": None}
    tail = [draw(st.sampled_from([rs, rb])) for _ in range(draw(st.integers(1, 3)))]
    if rs not in tail:
        tail.append(rs)
    host = {"name": "MA", "residues": [rs] + tail, "shape": "linear",
            "res_edges": [[i, i + 1] for i in range(len(tail))]}
    sol = {"name": "SOL", "residues": [{"resname": "W", "atoms": [{"name": "w", "type": "TB", "mass": 18.0}], "bonds": [], "vs": None}],
           "res_edges": [], "shape": "linear"}
    nhost = draw(st.integers(1, 2))
    molecules = [["MA", nhost], ["SOL", draw(st.integers(1, 2))]]
    if draw(st.booleans()):
        molecules = molecules[::-1]
    spec = {"rng": draw(st.integers(0, 2**31 - 1)), "comb": 2, "atomtypes": atomtypes, "moltypes": [host, sol],
            "molecules": molecules, "coords": None, "build": None}
    names = _mol_names(spec)
    hidx = [i for i, n in enumerate(names) if n == "MA"][0]
    lidx = [i for i, n in enumerate(names) if n == "SOL"][0]
    use_lig = draw(st.booleans())
    opts = {"box": [8.0, 8.0, 8.0], "split": ["RS:X1-s1:X2-s2"]}
    if use_lig:
        opts["ligands"] = [[f"MA#{hidx}-X1#0", f"SOL#{lidx}"]]
    else:
        opts["start"] = [f"MA#{hidx}-X2#1"]
    spec["opts"] = opts
    spec["split"] = {"resname": "RS", "groups": {"X1": ["s1"], "X2": ["s2"]}}
    spec["split_lig"] = {"host": hidx, "lig": lidx, "use_lig": use_lig}
    spec["kind"] = "split_lig"
    return spec


@st.composite
def _split_parse_case(draw):
    """-split together with a build file whose residue-level directives name the residues as they are after
    the split (new names, new numbering, ranges that reach beyond the old highest residue id)"""
    spec = draw(_split_case())
    names = _mol_names(spec)
    nmol = len(names)
    by_name = {mt["name"]: mt for mt in spec["moltypes"]}
    edge = spec["opts"]["box"][0] + 1.0
    spec["opts"]["box"] = [edge, edge, edge]
    new_names = sorted({n for sp in spec["split"] for n in sp["groups"]})
    build, blocks = [], []
    for _ in range(draw(st.integers(1, 2))):
        name = draw(st.sampled_from(sorted(set(names))))
        lo = draw(st.integers(0, nmol - 1))
        hi = draw(st.integers(lo + 1, nmol))
        mt = by_name[name]
        old = sorted({r["resname"] for r in mt["residues"]})
        top = 3 * len(mt["residues"]) + 1
        build += ["[ molecule ]", f"{name} {lo} {hi}"]
        block = {"name": name, "lo": lo, "hi": hi, "directives": []}
        for _k in range(draw(st.integers(1, 3))):
            kind = draw(st.sampled_from(["sphere", "rectangle", "cylinder"]))
            resname = draw(st.sampled_from(new_names + new_names + old))
            r0 = draw(st.integers(0, top - 1))
            r1 = draw(st.integers(r0 + 1, top))
            centre = [edge / 2.0] * 3
            size = round(0.45 * edge + draw(st.integers(0, 9)) / 100.0, 2)
            params = {"sphere": [size], "cylinder": [size, size], "rectangle": [size, size, size]}[kind]
            build += [f"[ {kind} ]", f"{resname} {r0} {r1} in " + " ".join(repr(float(c)) for c in centre) + " "
                      + " ".join(repr(float(p)) for p in params)]
            block["directives"].append({"kind": kind, "resname": resname, "r0": r0, "r1": r1, "params": params,
                                        "centre": centre})
        blocks.append(block)
    spec["build"] = build
    spec["blocks"] = blocks
    spec["kind"] = "split_parse"
    return spec


def strategy(tier):
    return st.one_of(_parse_case(), _parse_case(), _start_case(), _start_case(), _lig_case(), _split_case(), _split_lig_case(),
                     _split_parse_case())


def min_image(vec, box):
    return vec - box * np.round(vec / box)


def sig(params):
    out = []
    for p in params:
        if isinstance(p, np.ndarray):
            out.append(tuple(round(float(x), 9) for x in p))
        elif isinstance(p, (float, int)):
            out.append(round(float(p), 9))
        else:
            out.append(p)
    return tuple(out)


def check(spec, ctx):
    kind = spec["kind"]
    ctx.label("kind_" + kind)
    res = gc.run_gen_coords(spec, ctx, timeout=8 if spec.get("opts", {}).get("split") else 15)
    names = _mol_names(spec)
    if res.exc is not None:
        if isinstance(res.exc, Violation):
            raise res.exc
        if isinstance(res.exc, (IOError, OSError)):
            if kind == "parse" and covers_other_names(spec, names):
                raise Violation("molecule_block:rejected_for_other_molecule",
                                f"a [ molecule ] block whose index range also covers molecules with another name was rejected: {str(res.exc)[:200]}")
            raise Reject(str(res.exc)[:200])
        raise crash(f"{kind}:crash", res.exc)
    topo = res.topology
    if kind not in ("split", "split_lig", "split_parse"):
        c03.check_gro_listing(spec, res)
    if kind == "parse":
        check_parse(spec, ctx, topo, names)
    elif kind == "start":
        check_start(spec, ctx, res, topo, names)
    elif kind == "lig":
        check_lig(spec, ctx, res, topo, names)
    elif kind == "split_lig":
        check_split(spec, ctx, res, topo, names)
        check_split_lig(spec, ctx, res, topo, names)
    elif kind == "split_parse":
        check_split(spec, ctx, res, topo, names)
        # the residue a node stands for is the one the output file shows for its atoms
        flat = 0
        for mi, meta in enumerate(topo.molecules):
            index_of = {key: flat + i for i, key in enumerate(meta.molecule.nodes)}
            flat += len(index_of)
            for node in meta.nodes:
                at = meta.nodes[node]
                shown = {(res.gro["atoms"][index_of[a]]["resid"], res.gro["atoms"][index_of[a]]["resname"])
                         for a in at["graph"].nodes}
                if shown != {(at["resid"] % 100000, at["resname"])}:
                    raise Violation("split:node_vs_output_residue", f"molecule {mi} residue node {node} is {at['resname']}{at['resid']}, "
                                                                    f"its atoms are written as {sorted(shown)}")
        check_parse(spec, ctx, topo, names)
        selected = sum(1 for meta in topo.molecules for n in meta.nodes if meta.nodes[n].get("restraints"))
        if selected:
            ctx.label("split_then_directive_selected")
        ctx.nontrivial = True
    else:
        check_split(spec, ctx, res, topo, names)


def check_split_lig(spec, ctx, res, topo, names):
    info = spec["split_lig"]
    host = topo.molecules[info["host"]]
    box = np.array(res.engine.boxsize, dtype=float)
    if info["use_lig"]:
        cands = [n for n in host.nodes if host.nodes[n]["resid"] == 0 and host.nodes[n]["resname"] == "X1"]
        if len(cands) != 1:
            raise Violation("split_lig:host_residue", f"{len(cands)} residues X1 with resid 0 in the host")
        hnode = cands[0]
        lmol = topo.molecules[info["lig"]]
        lnode = next(iter(lmol.nodes))
        d = float(np.linalg.norm(min_image(np.array(lmol.nodes[lnode]["position"]) - np.array(host.nodes[hnode]["position"]), box)))
        size_h = topo.volumes[host.nodes[hnode].get("template", host.nodes[hnode]["resname"])]
        size_l = topo.volumes[lmol.nodes[lnode].get("template", lmol.nodes[lnode]["resname"])]
        want = 0.5 * (size_h + size_l)
        if abs(d - want) > 1e-6 * max(1.0, want):
            raise Violation("split_lig:ligand_not_at_named_residue", f"ligand is {d:.5f} nm from residue X1#0 of the host, one step is {want:.5f}")
        # no other molecule may have lost its own placement to a ligand attachment
        ligated = [ev for ev in res.events if ev[0] == "add" and ev[1] == info["host"] and ev[2] not in host.nodes]
        if len({ev[2] for ev in ligated}) != 1:
            raise Violation("split_lig:ligand_count", f"{len({ev[2] for ev in ligated})} ligand residues were attached to the host, the "
                                                      f"specification names exactly one residue")
        ctx.label("split_then_ligand")
    else:
        starts = {}
        for ev in res.events:
            if ev[0] == "add" and ev[3]:
                starts[ev[1]] = ev[2]
        want = [n for n in host.nodes if host.nodes[n]["resid"] == 1 and host.nodes[n]["resname"] == "X2"]
        if len(want) != 1 or starts.get(info["host"]) != want[0]:
            raise Violation("split_lig:start_residue", f"host started at node {starts.get(info['host'])}, specification X2#1 selects {want}")
        ctx.label("split_then_start")
    ctx.nontrivial = True


def covers_other_names(spec, names):
    return any(any(names[i] != b["name"] for i in range(b["lo"], b["hi"])) for b in spec["blocks"])


def check_parse(spec, ctx, topo, names):
    two_blocks = False
    seen = {}
    for b in spec["blocks"]:
        if b["name"] in seen and seen[b["name"]] != (b["lo"], b["hi"]):
            two_blocks = True
        seen[b["name"]] = (b["lo"], b["hi"])
    for mi, meta in enumerate(topo.molecules):
        want_restr, want_rw = {}, {}
        want_dist = []
        for b in spec["blocks"]:
            if b["name"] != names[mi] or not (b["lo"] <= mi < b["hi"]):
                continue
            for d in b["directives"]:
                if d["kind"] in ("sphere", "rectangle", "cylinder"):
                    for node in meta.nodes:
                        at = meta.nodes[node]
                        if at["resname"] == d["resname"] and d["r0"] <= at["resid"] < d["r1"]:
                            want_restr.setdefault(node, []).append(sig(["in", np.array(d["centre"])] + list(d["params"]) + [d["kind"]]))
                elif d["kind"] == "rw":
                    for node in meta.nodes:
                        at = meta.nodes[node]
                        if at["resname"] == d["resname"] and d["r0"] <= at["resid"] < d["r1"]:
                            want_rw.setdefault(node, []).append(sig([np.array([0.0, 0.0, 1.0]), d["angle"]]))
                else:
                    want_dist.append((d["a"], d["b"]))
        for node in meta.nodes:
            at = meta.nodes[node]
            got = sorted((sig(p) for p in at.get("restraints", [])), key=repr)
            if got != sorted(want_restr.get(node, []), key=repr):
                raise Violation("geometry_selection", f"molecule {mi} ({names[mi]}) residue {at['resname']}{at['resid']}: "
                                                      f"restraints {got} expected {sorted(want_restr.get(node, []))}")
            got_rw = sorted((sig(p) for p in at.get("rw_options", [])), key=repr)
            if got_rw != sorted(want_rw.get(node, []), key=repr):
                raise Violation("rw_selection", f"molecule {mi} ({names[mi]}) residue {at['resname']}{at['resid']}: "
                                                f"rw_options {got_rw} expected {sorted(want_rw.get(node, []))}")
        has_dist = any("distance_restraints" in meta.nodes[n] for n in meta.nodes)
        if has_dist != bool(want_dist):
            raise Violation("distance_restraint_selection", f"molecule {mi} ({names[mi]}): distance restraints "
                                                            f"{'present' if has_dist else 'absent'}, expected {'present' if want_dist else 'absent'}")
    if two_blocks:
        ctx.label("two_blocks_same_name")
    other = covers_other_names(spec, names)
    if other:
        ctx.label("range_covers_other_name")
    ctx.nontrivial = two_blocks or other


def check_start(spec, ctx, res, topo, names):
    st_spec = spec["start"]
    starts = {}
    for ev in res.events:
        if ev[0] == "add" and ev[3]:
            starts[ev[1]] = ev[2]       # last start placement of the molecule (the accepted attempt)
    for mi, meta in enumerate(topo.molecules):
        selected = names[mi] == st_spec["mol"] and (st_spec["mol_idx"] is None or st_spec["mol_idx"] == mi)
        if mi not in starts:
            raise Violation("start:no_start_placement", f"molecule {mi}")
        if selected:
            want = None
            for node in meta.nodes:
                at = meta.nodes[node]
                if (st_spec["resname"] is None or at["resname"] == st_spec["resname"]) and \
                        (st_spec["resid"] is None or at["resid"] == st_spec["resid"]):
                    want = node
                    break
            if starts[mi] != want:
                raise Violation("start:wrong_residue", f"molecule {mi} ({names[mi]}) started at residue node {starts[mi]}, "
                                                       f"specification {spec['opts']['start']} selects node {want}")
        else:
            first = next(iter(meta.nodes))
            if starts[mi] != first:
                raise Violation("start:unselected_molecule_changed", f"molecule {mi} ({names[mi]}) started at node {starts[mi]} instead of {first}")
    omitted = [k for k in ("mol_idx", "resname", "resid") if st_spec[k] is None]
    if spec.get("nested_names"):
        ctx.label("start_with_nested_molecule_names")
    if omitted:
        ctx.label("omitted_field")
    ctx.nontrivial = bool(omitted) or st_spec["resid"] not in (None, 1)


def check_lig(spec, ctx, res, topo, names):
    lig = spec["lig"]
    by_name = {mt["name"]: mt for mt in spec["moltypes"]}
    if [m.mol_name for m in topo.molecules] != names:
        raise Violation("ligand:molecule_list_changed", f"{[m.mol_name for m in topo.molecules]} expected {names}")
    for mi, meta in enumerate(topo.molecules):
        want = len(by_name[names[mi]]["residues"])
        if len(meta.nodes) != want:
            raise Violation("ligand:left_in_host", f"molecule {mi} ({names[mi]}) has {len(meta.nodes)} residues, expected {want}")
    box = np.array(res.engine.boxsize, dtype=float)
    if spec.get("lig2"):
        ctx.label("two_ligand_options_one_host")
        _check_one_ligand(spec, spec["lig2"], topo, box)
    _check_one_ligand(spec, lig, topo, box)
    if len(lig.get("lig_resids", [1])) > 1:
        ctx.label("several_ligand_residues")
    ctx.label("ligand")
    ctx.nontrivial = True


def _check_one_ligand(spec, lig, topo, box):
    host = topo.molecules[lig["host"]]
    hnode = [n for n in host.nodes if host.nodes[n]["resid"] == lig["host_resid"]][0]
    lmol = topo.molecules[lig["lig"]]
    sf = spec["opts"].get("step_fudge", 1.0)
    size_h = topo.volumes[host.nodes[hnode].get("template", host.nodes[hnode]["resname"])]
    for lnode in lmol.nodes:
        if lmol.nodes[lnode]["resid"] not in lig.get("lig_resids", [1]):
            continue
        d = float(np.linalg.norm(min_image(np.array(lmol.nodes[lnode]["position"]) - np.array(host.nodes[hnode]["position"]), box)))
        size_l = topo.volumes[lmol.nodes[lnode].get("template", lmol.nodes[lnode]["resname"])]
        want = sf * 0.5 * (size_h + size_l)
        if abs(d - want) > 1e-6 * max(1.0, want):
            raise Violation("ligand:not_one_step_from_host", f"residue {lmol.nodes[lnode]['resid']} of ligand molecule {lig['lig']} is {d:.5f} nm "
                                                             f"from residue {lig['host_resid']} of molecule {lig['host']}, one step is {want:.5f}")
        # the ligand's atoms follow its residue position
        atoms = [lmol.molecule.nodes[a]["position"] for a in lmol.nodes[lnode]["graph"].nodes]
        if np.max(np.abs(np.mean(atoms, axis=0) - np.array(lmol.nodes[lnode]["position"]))) > 1e-6:
            raise Violation("ligand:atoms_not_at_ligand_position", "backmapped ligand atoms are not centred on the ligated position")


def check_split(spec, ctx, res, topo, names):
    splits = spec["split"] if isinstance(spec["split"], list) else [spec["split"]]
    by_name = {mt["name"]: mt for mt in spec["moltypes"]}
    new_of = {}
    for sp in splits:
        for new, atoms in sp["groups"].items():
            for a in atoms:
                new_of[(sp["resname"], a)] = new
    if res.gro_text is None or isinstance(res.gro, Exception):
        raise Violation("split:no_output", "no readable structure written")
    want = gc.expanded_atoms(spec)
    got = res.gro["atoms"]
    if len(got) != len(want):
        raise Violation("split:atom_count", f"{len(got)} atoms written, topology has {len(want)}")
    for i, (w, g) in enumerate(zip(want, got), start=1):
        if g["name"] != w[2]:
            raise Violation("split:atom_order", f"line {i}: atom {g['name']} expected {w[2]}")
        expect_res = new_of.get((w[1], w[2]), w[1])
        if g["resname"] != expect_res:
            raise Violation("split:resname", f"line {i}: atom {g['name']} in residue {g['resname']} expected {expect_res}")
    # the residues after the split: one per (original residue, group); atoms never move between them
    offset = 0
    per_mol = {}
    for gi, w in enumerate(want):
        per_mol.setdefault(w[3], []).append((gi, w))
    for mi, meta in enumerate(topo.molecules):
        rows = per_mol.get(mi, [])
        atom_keys = list(meta.molecule.nodes)
        if len(atom_keys) != len(rows):
            raise Violation("split:atom_count", f"molecule {mi}: {len(atom_keys)} atoms, topology has {len(rows)}")
        expected = {}
        for key, (gi, w) in zip(atom_keys, rows):
            expected.setdefault((w[4], new_of.get((w[1], w[2]), w[1])), set()).add(key)
        have = [frozenset(meta.nodes[node]["graph"].nodes) for node in meta.nodes]
        want_sets = {frozenset(v) for v in expected.values()}
        if len(have) != len(want_sets) or set(have) != want_sets:
            odd = [sorted(h) for h in have if h not in want_sets][:2]
            raise Violation("split:residues", f"molecule {mi}: {len(have)} residues after the split, expected {len(want_sets)} "
                                              f"(one per original residue and group); unexpected atom sets {odd}")
        ids = [(meta.nodes[node].get("resid"), meta.nodes[node].get("resname")) for node in meta.nodes]
        if len(set(ids)) != len(ids):
            raise Violation("split:duplicate_residue_id", f"molecule {mi}: residue (resid, resname) pairs repeat: {sorted(ids)}")
    if len(splits) > 1:
        ctx.label("several_split_strings")
        if len({n for sp in splits for n in sp["groups"]}) < sum(len(sp["groups"]) for sp in splits):
            ctx.label("split_names_reused")
    # residue graphs partition the atoms
    for mi, meta in enumerate(topo.molecules):
        seen = []
        for node in meta.nodes:
            seen += list(meta.nodes[node]["graph"].nodes)
        all_atoms = list(meta.molecule.nodes)
        if sorted(seen) != sorted(all_atoms):
            raise Violation("split:not_a_partition", f"molecule {mi}: residue fragments hold {len(seen)} atoms ({len(set(seen))} distinct), molecule has {len(all_atoms)}")
        for node in meta.nodes:
            frag = meta.nodes[node]["graph"]
            rns = {meta.molecule.nodes[a]["resname"] for a in frag.nodes}
            if len(rns) != 1:
                raise Violation("split:mixed_fragment", f"molecule {mi} residue node {node} mixes residues {rns}")
    ctx.label("split")
    ctx.nontrivial = True
