"""Shared evaluation for the gen_params family (C01, C02, C10, C11, C13, C14)."""
import logging
import re
from collections import Counter

from . import gp, model as mdl
from .core import Violation, Reject, crash
from .itp import read_itp, inter_multiset, canon_atoms, canon_param


def execute(spec, ctx, clause="gen_params"):
    """Run gen_params; classify the outcome. Returns (run, parsed moleculetype or None)."""
    run = gp.run_gen_params(spec, ctx)
    if run.exc is not None:
        if isinstance(run.exc, gp.CLEAN):
            if "find block" in str(run.exc):
                # every residue name of a generated residue graph has a block of exactly that name in the inputs
                raise Violation(f"{clause}:block_not_found", f"a block that the inputs define was not found: {run.exc}")
            ctx.label("clean_rejection")
            raise Reject(str(run.exc))
        raise crash(f"{clause}:crash", run.exc)
    if not run.out_exists:
        raise Violation(f"{clause}:no_output", "gen_params returned without writing the output file")
    try:
        mols = read_itp(run.text)
    except Exception as err:
        raise Violation(f"{clause}:unreadable_output", f"independent reader failed: {err}")
    if len(mols) != 1:
        raise Violation(f"{clause}:unreadable_output", f"{len(mols)} moleculetypes in output")
    return run, mols[0]


def molecule_tables(molecule):
    """atoms table and interaction multiset of a vermouth molecule (captured object)."""
    order = list(molecule.sorted_nodes)
    index = {node: i for i, node in enumerate(order, start=1)}
    atoms = []
    for node in order:
        at = molecule.nodes[node]
        atoms.append({"name": at.get("atomname"), "type": at.get("atype"), "resid": at.get("resid"),
                      "resname": at.get("resname"),
                      "charge": None if at.get("charge") is None else float(at["charge"]),
                      "mass": None if at.get("mass") is None else float(at["mass"]),
                      "cgrp": at.get("charge_group")})
    inter = {}
    for sec, items in molecule.interactions.items():
        sec_out = "dihedrals" if sec == "impropers" else sec
        for it in items:
            meta = it.meta or {}
            guard = None
            if meta.get("ifdef") is not None:
                guard = ("ifdef", meta["ifdef"])
            elif meta.get("ifndef") is not None:
                guard = ("ifndef", meta["ifndef"])
            inter.setdefault(sec_out, []).append(
                {"atoms": tuple(index[a] for a in it.atoms), "params": [str(p) for p in it.parameters],
                 "guard": guard})
    return atoms, inter


ATOM_FIELDS = ("name", "type", "resid", "resname", "charge", "mass")


def same_atoms(a_list, b_list, fields=ATOM_FIELDS):
    if len(a_list) != len(b_list):
        return f"{len(a_list)} atoms vs {len(b_list)}"
    for i, (a, b) in enumerate(zip(a_list, b_list), start=1):
        for f in fields:
            va, vb = a.get(f), b.get(f)
            if isinstance(va, float) or isinstance(vb, float):
                if va is None or vb is None or abs(float(va) - float(vb)) > 1e-9:
                    return f"atom {i} field {f}: {va!r} vs {vb!r}"
            elif va != vb:
                return f"atom {i} field {f}: {va!r} vs {vb!r}"
    return None


def diff_multisets(a, b):
    """a, b: dict sec -> sorted list of rows. Returns description of first difference or None."""
    for sec in sorted(set(a) | set(b)):
        ca, cb = Counter(a.get(sec, [])), Counter(b.get(sec, []))
        if ca != cb:
            only_a = list((ca - cb).elements())[:3]
            only_b = list((cb - ca).elements())[:3]
            return f"[{sec}] only-left={only_a} only-right={only_b}"
    return None


def merged_sections(inter):
    """fold 'impropers' into 'dihedrals' (they are written into one section)."""
    out = {}
    for sec, items in inter.items():
        out.setdefault("dihedrals" if sec == "impropers" else sec, []).extend(items)
    return out


MISSING_RE = re.compile(r"Missing a link between residue (\S+) (\S+) and residue (\S+) (\S+)\.")


def missing_link_warnings(run):
    """[(idxA, resA, idxB, resB)] parsed from the captured log records."""
    out = []
    for level, name, msg in run.warnings:
        m = MISSING_RE.search(msg)
        if m:
            out.append((int(m.group(1)), m.group(2), int(m.group(3)), m.group(4)))
    return out
