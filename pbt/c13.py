"""C13 - generated topology is independent of labelling, ordering and run history."""
import copy

import hypothesis.strategies as st

from . import gp, gpcheck, model as mdl
from .core import Violation, Reject, reset_global_state
from .itp import inter_multiset

PID = "C13"
LEVEL = "exploration"
RULE = ("metamorphic pairs: a Hypothesis-generated gen_params case (JSON residue graph, .ff/.itp blocks, links) "
        "and a transformed copy - node keys relabelled (resids fixed), node/edge record order permuted, edge "
        "endpoints swapped, blocks and non-conflicting links permuted inside a file, definitions split over "
        "several -f files in another order (only when no .itp is among them), 0-2 unrelated gen_params runs "
        "executed in between - must give the same atoms table and interaction multiset; a repeated run must "
        "give a byte-identical file apart from the header. One case in eight is a DNA strand given as two "
        "different .json listings and completed with -dsdna. non-trivial = the transformation is not the "
        "identity, >=2 residues and >=1 link applied; distinct = spec hash")
ASSUMPTIONS = ["cases whose outcome the reference model marks as application-order dependent are not asserted",
               "links are treated as conflicting (and not permuted) when they share a section and atom-name "
               "tuple, carry a replace, or carry non-edges",
               "independent .itp reader pbt/itp.py"]
BUDGET = {"quick": (16, 200), "thorough": (16, 4000)}


@st.composite
def _strategy(draw):
    mixed = draw(st.integers(0, 2)) == 0
    spec = draw(gp.case(max_res=7, link_bias=True, routes=("json",), min_res=2, mixed_nrexcl=mixed,
                        f22_safe=True, min_blocks=2 if mixed else 1,
                        removal_bias=draw(st.integers(0, 5)) == 0))
    n = len(spec["graph"]["nodes"])
    ne = len(spec["graph"]["edges"])
    t = {}
    kinds = draw(st.lists(st.sampled_from(["ids", "records", "defs", "files", "history"]), min_size=1,
                          max_size=3, unique=True))
    if "ids" in kinds:
        t["idmap"] = draw(st.lists(st.integers(0, 40), min_size=n, max_size=n, unique=True))
    if "records" in kinds:
        t["node_order"] = list(draw(st.permutations(range(n))))
        t["edge_order"] = list(draw(st.permutations(range(ne))))
        t["edge_flip"] = [draw(st.booleans()) for _ in range(ne)]
    if "defs" in kinds:
        t["block_perm_seed"] = draw(st.integers(0, 10**6))
        t["link_perm_seed"] = draw(st.integers(0, 10**6))
    if "files" in kinds:
        t["split"] = draw(st.sampled_from(["links_apart", "one_per_block", "reverse"]))
    if "history" in kinds:
        # unrelated earlier runs, half of them with links that remove atoms
        t["history"] = [draw(gp.case(max_res=4, link_bias=True, removal_bias=draw(st.booleans())))
                        for _ in range(draw(st.integers(0, 2)))]
        # runs with the *same* force-field files but another residue graph (state kept per definition
        # set, e.g. a cache, only leaks between such runs)
        names = [b["name"] for b in spec["blocks"]]
        t["history_same_ff"] = [draw(gp.residue_graph(names, max_res=5, routes=("json",), min_res=1,
                                                      name_modes=("random", "block")))[0]
                                for _ in range(draw(st.integers(1, 2)))]
    spec["transform"] = t
    return spec


@st.composite
def _dna(draw):
    """one DNA strand described by two .json residue graphs that differ in node keys, record order and
    edge orientation; gen_params -dsdna must give the same double strand for both"""
    n = draw(st.integers(2, 10))
    bases = [draw(st.sampled_from(["DA", "DC", "DG", "DT"])) for _ in range(n)]
    listings = []
    for _ in range(2):
        ne = n - 1
        listings.append({"idmap": draw(st.lists(st.integers(0, 40), min_size=n, max_size=n, unique=True)),
                         "node_order": list(draw(st.permutations(range(n)))),
                         "edge_order": list(draw(st.permutations(range(ne)))),
                         "edge_flip": [draw(st.booleans()) for _ in range(ne)]})
    if draw(st.booleans()):
        listings[0] = {"idmap": list(range(n)), "node_order": list(range(n)), "edge_order": list(range(n - 1)),
                       "edge_flip": [False] * (n - 1)}
    return {"kind": "dna", "bases": bases, "listings": listings, "rng": draw(st.integers(0, 2**31 - 1))}


@st.composite
def _multires(draw):
    """residue graphs with multi-residue (from_itp) blocks, also consecutive copies of one block, under
    relabelled node keys and permuted records"""
    spec = draw(gp.multires_case())
    n = len(spec["graph"]["nodes"])
    ne = len(spec["graph"]["edges"])
    spec["transform"] = {"idmap": draw(st.lists(st.integers(0, max(40, 2 * n)), min_size=n, max_size=n, unique=True)),
                         "node_order": list(draw(st.permutations(range(n)))),
                         "edge_order": list(draw(st.permutations(range(ne)))),
                         "edge_flip": [draw(st.booleans()) for _ in range(ne)]}
    return spec


def strategy(tier):
    return st.one_of(_strategy(), _strategy(), _strategy(), _strategy(), _strategy(), _strategy(), _strategy(), _dna(),
                     _multires())


def check_dna(spec, ctx):
    import json
    from polyply.src.gen_itp import gen_params
    from . import core
    from .c19 import FF_TEMPLATE, FF_LINKS, BASES
    from .itp import read_itp
    names = list(spec["bases"])
    names[0] += "5"
    names[-1] += "3"
    all_names = [b + s for b in BASES for s in ("", "5", "3")]
    (ctx.dir / "dna.ff").write_text("".join(FF_TEMPLATE.format(name=nm) + "\n" for nm in all_names)
                                    + FF_LINKS.format(all="|".join(all_names)))
    n = len(names)
    results = []
    for num, lst in enumerate(spec["listings"]):
        key = lst["idmap"]
        edges = []
        for e in lst["edge_order"]:
            a, b = key[e], key[e + 1]
            if lst["edge_flip"][e]:
                a, b = b, a
            edges.append({"source": a, "target": b})
        data = {"directed": False, "multigraph": False, "graph": {},
                "nodes": [{"id": key[i], "resname": names[i], "resid": i + 1} for i in lst["node_order"]],
                "edges": edges}
        seq = ctx.dir / f"seq{num}.json"
        seq.write_text(json.dumps(data))
        out = ctx.dir / f"out{num}.itp"
        import random
        import numpy as np
        random.seed(spec["rng"])
        np.random.seed(spec["rng"] % 2**32)
        try:
            gen_params(name="mol", outpath=out, inpath=[ctx.dir / "dna.ff"], seq_file=seq, dsdna=True)
        except Exception as err:
            raise core.crash(f"dna:crash_listing{num}", err)
        if not out.exists():
            raise Violation("dna:no_output", f"listing {num}")
        results.append(tables(read_itp(out.read_text())[0]))
    if results[0][0] != results[1][0]:
        diff = [(i + 1, a, b) for i, (a, b) in enumerate(zip(results[0][0], results[1][0])) if a != b][:2]
        raise Violation("dna:atoms_differ", f"two listings of one strand: {diff} (n={len(results[0][0])}/{len(results[1][0])})")
    err = gpcheck.diff_multisets(results[0][1], results[1][1])
    if err:
        raise Violation("dna:interactions_differ", f"two listings of one strand: {err}")
    ctx.label("dsdna_two_listings")
    ctx.nontrivial = n >= 3 and spec["listings"][0] != spec["listings"][1]


def links_conflict(spec):
    seen = set()
    for lnk in spec["links"]:
        if lnk["non_edges"] or any("replace" in a["attrs"] for a in lnk["atoms"]):
            return True
        for it in lnk["inter"]:
            key = (it["sec"], tuple(sorted(mdl.split_key(k)[1] for k in it["atoms"])))
            if key in seen:
                return True
        for it in lnk["inter"]:
            seen.add((it["sec"], tuple(sorted(mdl.split_key(k)[1] for k in it["atoms"]))))
    return False


def transform(spec):
    """returns (transformed spec, list of applied transformation names)"""
    import random
    t = spec["transform"]
    new = copy.deepcopy(spec)
    applied = []
    graph = new["graph"]
    if "idmap" in t:
        old_ids = [nd["id"] for nd in graph["nodes"]]
        mapping = dict(zip(old_ids, t["idmap"]))
        if any(mapping[k] != k for k in mapping):
            applied.append("ids")
        for nd in graph["nodes"]:
            nd["id"] = mapping[nd["id"]]
        graph["edges"] = [[mapping[u], mapping[v], a] for u, v, a in graph["edges"]]
    if "node_order" in t:
        if t["node_order"] != graph.get("node_order"):
            applied.append("node_order")
        graph["node_order"] = t["node_order"]
        edges = [graph["edges"][i] for i in t["edge_order"]]
        flipped = []
        for flip, (u, v, a) in zip(t["edge_flip"], edges):
            flipped.append([v, u, a] if flip else [u, v, a])
        if flipped != graph["edges"]:
            applied.append("edge_records")
        graph["edges"] = flipped
    has_itp = any(f["kind"] == "itp" for f in new["files"])
    if "block_perm_seed" in t:
        rnd = random.Random(t["block_perm_seed"])
        for fil in new["files"]:
            before = list(fil["blocks"])
            rnd.shuffle(fil["blocks"])
            if fil["blocks"] != before:
                applied.append("block_order")
        # the interaction lines inside a block in another order (lines on identical atoms keep their relative
        # order: they are told apart by position)
        rnd = random.Random(t["block_perm_seed"] + 7)
        for blk in new["blocks"]:
            before = list(blk["inter"])
            groups = {}
            for it in blk["inter"]:
                groups.setdefault((it["sec"], tuple(it["atoms"])), []).append(it)
            nat = len(blk["atoms"])
            if any(len(v) > 1 and any(a >= nat for a in v[0]["atoms"]) for v in groups.values()):
                continue        # repeated dangling definitions of the same atoms: their order is part of the meaning
            keys = list(groups)
            rnd.shuffle(keys)
            blk["inter"] = [it for k in keys for it in groups[k]]
            if blk["inter"] != before:
                applied.append("interaction_line_order")
        if not links_conflict(new):
            rnd = random.Random(t["link_perm_seed"])
            for fil in new["files"]:
                before = list(fil.get("links", []))
                rnd.shuffle(fil["links"])
                if fil["links"] != before:
                    applied.append("link_order")
    if "split" in t and has_itp and t["split"] == "reverse" and not links_conflict(new) and len(new["files"]) > 1:
        # with a polyply .itp among the files the reading order has documented side effects (R1 models them);
        # the pair is only asserted when R1 predicts the same molecule for both orders
        new["files"] = new["files"][::-1]
        applied.append("file_order_with_itp")
    if "split" in t and not has_itp:
        files = []
        if t["split"] == "links_apart":
            for fil in new["files"]:
                if fil["links"] and fil["blocks"]:
                    files.append({"kind": "ff", "blocks": [], "links": fil["links"], "mods": []})
                    files.append({"kind": "ff", "blocks": fil["blocks"], "links": [], "mods": fil.get("mods", [])})
                    applied.append("file_split")
                else:
                    files.append(fil)
        elif t["split"] == "one_per_block":
            for fil in new["files"]:
                if len(fil["blocks"]) > 1:
                    for b in fil["blocks"]:
                        files.append({"kind": "ff", "blocks": [b], "links": [], "mods": []})
                    files.append({"kind": "ff", "blocks": [], "links": fil["links"], "mods": fil.get("mods", [])})
                    applied.append("file_split")
                else:
                    files.append(fil)
        else:
            # reversing the file order changes the relative order of links of different files
            if not links_conflict(new):
                files = new["files"][::-1]
                if len(files) > 1:
                    applied.append("file_order")
            else:
                files = new["files"]
        new["files"] = files
    return new, applied


def tables(written):
    atoms = [(a["name"], a["type"], a["resid"], a["resname"], a["charge"], a["mass"], a["cgrp"])
             for a in written["atoms"]]
    return atoms, inter_multiset(written["inter"]), written["nrexcl"]


def body_without_header(text):
    lines = text.splitlines()
    return "\n".join(lines[1:])


def check(spec, ctx):
    from . import core
    if spec.get("kind") == "dna":
        return check_dna(spec, ctx)
    model = mdl.expected(spec)
    if model.invalid:
        raise Reject(model.invalid)
    run, written = gpcheck.execute(spec, ctx, clause="base")
    if model.undetermined or any(len({tuple(sorted(rep.items())) for _, rep in v}) > 1
                                 for v in model.charge_override.values()):
        ctx.label("order_dependent_not_asserted")
        return
    base = tables(written)
    base_text = run.text
    new_spec, applied = transform(spec)
    if "file_order_with_itp" in applied:
        other = mdl.expected(new_spec)
        same = not other.invalid and not other.undetermined and \
            mdl.expected_rows(other) == mdl.expected_rows(model) and \
            [(a["name"], a["type"], a["charge"]) for a in other.atoms] == [(a["name"], a["type"], a["charge"]) for a in model.atoms] \
            and other.charge_override == model.charge_override and other.edges == model.edges
        if not same:
            ctx.label("file_order_changes_the_modelled_molecule")
            return
        ctx.label("file_order_with_itp")
    history = spec["transform"].get("history", [])
    # history: unrelated runs in the same process (their own directories inside the case dir)
    for num, hspec in enumerate(history):
        hdir = ctx.dir / f"hist{num}"
        hdir.mkdir()
        hctx = core.Ctx(ctx.dir, f"hist{num}")
        hctx.dir = hdir
        try:
            gp.run_gen_params(hspec, hctx, outname="hist.itp", capture=False)
        except Exception:
            pass
        applied.append("history")
    for num, graph in enumerate(spec["transform"].get("history_same_ff", [])):
        hspec = copy.deepcopy(spec)
        hspec["graph"] = graph
        hspec["route"] = "json"
        hdir = ctx.dir / f"same{num}"
        hdir.mkdir()
        hctx = core.Ctx(ctx.dir, f"same{num}")
        hctx.dir = hdir
        try:
            gp.run_gen_params(hspec, hctx, outname="hist.itp", capture=False)
        except Exception:
            pass
        applied.append("history_same_ff")
    # transformed run
    tdir = ctx.dir / "transformed"
    tdir.mkdir()
    tctx = core.Ctx(ctx.dir, "transformed")
    tctx.dir = tdir
    run2 = gp.run_gen_params(new_spec, tctx, capture=False)
    if run2.exc is not None:
        raise core.crash("transformed:crash", run2.exc) if not isinstance(run2.exc, gp.CLEAN) else \
            Violation("transformed:rejected", f"base run accepted, transformed run rejected: {run2.exc}")
    if not run2.out_exists:
        raise Violation("transformed:no_output", "no file")
    from .itp import read_itp
    written2 = read_itp(run2.text)[0]
    other = tables(written2)
    if base[0] != other[0]:
        diff = [(i + 1, a, b) for i, (a, b) in enumerate(zip(base[0], other[0])) if a != b][:2]
        raise Violation("atoms_differ",
                        f"after {sorted(set(applied))}: {diff} (n={len(base[0])}/{len(other[0])})")
    err = gpcheck.diff_multisets(base[1], other[1])
    if err:
        raise Violation("interactions_differ", f"after {sorted(set(applied))}: {err}")
    if base[2] != other[2]:
        raise Violation("nrexcl_differs", f"{base[2]} vs {other[2]}")
    # repetition: byte-identical apart from the header line
    rdir = ctx.dir / "repeat"
    rdir.mkdir()
    rctx = core.Ctx(ctx.dir, "repeat")
    rctx.dir = rdir
    run3 = gp.run_gen_params(spec, rctx, capture=False)
    if run3.exc is not None or not run3.out_exists:
        raise Violation("repeat:failed", f"{run3.exc!r}")
    if body_without_header(run3.text) != body_without_header(base_text):
        raise Violation("repeat:bytes_differ", "repeated run wrote a different file body")
    for name in set(applied):
        ctx.label("t_" + name)
    ctx.nontrivial = bool(applied) and len(model.residues) >= 2 and bool(model.matches)
