"""C08 - a topology is read as its preprocessed, flattened equivalent."""
import os
import posixpath

import hypothesis.strategies as st

from .core import Violation, Reject, crash

PID = "C08"
LEVEL = "exploration"
RULE = ("generated include trees: 1-6 files in nested directories, each a sequence of whole directive blocks "
        "(atomtypes, nonbond_params, bonded type tables, complete moleculetypes with #ifdef-guarded "
        "interactions), #define with/without value, #include (also repeated, optionally wrapped in "
        "#ifdef/#ifndef[/#else]) and #error lines, random comments/blank lines/tabs/'*' lines, main file given "
        "by absolute or relative path. Oracle: an independent 60-line flattener R2 produces the single-file "
        "equivalent; Topology.from_gmx_topfile(tree) must equal Topology.from_gmx_topfile(flat) on defaults, "
        "atom types, type tables, defines, nonbond_params, blocks and molecule list, the molecule list must be "
        "the expanded [molecules] section with independent instances, and NotImplementedError must be raised "
        "iff R2 reaches an active #error. non-trivial = >=1 conditional include whose condition is false and "
        ">=1 nested include; distinct = spec hash")
ASSUMPTIONS = ["conditionals are one level deep and #define lines stand outside conditionals (as documented)",
               "included files start with a section header and the including file continues with one",
               "known finding F13: a conditional #include/#error that follows a [ moleculetype ] in the same file "
               "is excluded by construction from 7/8 of the draws"]
RULE += (' One tree in three ends main.top (half of those: every file) without a final line break.')
BUDGET = {"quick": (16, 300), "thorough": (16, 6000)}

TAGS = ["FLEX", "POSRES", "HEAVY"]
ATYPES = ["A1", "A2", "A3", "A4"]


@st.composite
def _mol(draw, name):
    n = draw(st.integers(1, 4))
    lines = ["[ moleculetype ]", f"{name} {draw(st.integers(1, 3))}", "[ atoms ]"]
    for i in range(1, n + 1):
        lines.append(f"{i} {draw(st.sampled_from(ATYPES))} 1 R{name} B{i} {i} 0.0 36.0")
    if n > 1:
        lines.append("[ bonds ]")
        for i in range(1, n):
            lines.append(f"{i} {i + 1} 1 0.{draw(st.integers(2, 5))} {draw(st.integers(100, 999))}")
        if draw(st.booleans()):
            tag = draw(st.sampled_from(TAGS))
            kind = draw(st.sampled_from(["ifdef", "ifndef"]))
            sep = draw(st.sampled_from([" ", " ", "\t"]))
            lines += [f"#{kind}{sep}{tag}", f"1 {n} 1 0.9 50", "#endif"]
    if n > 2 and draw(st.booleans()):
        lines.append("[ angles ]")
        lines.append(f"1 2 3 2 {draw(st.integers(90, 180))} 25")
    return {"k": "mol", "name": name, "lines": lines}


@st.composite
def _block(draw, used_types):
    kind = draw(st.sampled_from(["atomtypes", "nonbond_params", "bondtypes", "angletypes", "dihedraltypes"]))
    lines = [f"[ {kind} ]"]
    if kind == "atomtypes":
        for t in draw(st.lists(st.sampled_from(ATYPES), min_size=1, max_size=3, unique=True)):
            lines.append(f"{t} 36.0 0.0 A 0.{draw(st.integers(2, 6))} {draw(st.integers(1, 9))}.0")
    elif kind == "nonbond_params":
        a, b = draw(st.sampled_from(ATYPES)), draw(st.sampled_from(ATYPES))
        lines.append(f"{a} {b} 1 0.{draw(st.integers(2, 6))} {draw(st.integers(1, 9))}.5")
    elif kind == "bondtypes":
        lines.append(f"{draw(st.sampled_from(ATYPES))} {draw(st.sampled_from(ATYPES))} 1 0.3{draw(st.integers(0, 9))} 1000")
    elif kind == "angletypes":
        lines.append(" ".join(draw(st.sampled_from(ATYPES)) for _ in range(3)) + f" 2 {draw(st.integers(90, 180))} 30")
    else:
        lines.append(" ".join(draw(st.sampled_from(ATYPES + ["X"])) for _ in range(4)) + f" 9 180 {draw(st.integers(1, 9))} 2")
        if draw(st.booleans()):
            lines.append(lines[-1].rsplit(" ", 3)[0] + f" 9 0 {draw(st.integers(1, 9))} 3")
    return {"k": "block", "lines": lines}


@st.composite
def _strategy(draw):
    nfiles = draw(st.integers(1, 6))
    dirs = ["", "ff", "ff/sub", "mols", "mols/a/b"]
    paths = ["main.top"]
    for i in range(1, nfiles):
        d = draw(st.sampled_from(dirs))
        paths.append(posixpath.join(d, f"inc{i}.itp"))
    unsafe = draw(st.integers(0, 7)) == 0        # F13 shape allowed
    files = {}
    mol_names = []
    # #define lines must stay outside conditionals also after inlining: only "D files" carry
    # defines, and a D file is only ever included unconditionally from another D file
    dflag = [True] + [draw(st.booleans()) for _ in paths[1:]]

    def pick_target(i, want_cond):
        later = list(range(i + 1, len(paths)))
        if want_cond or not dflag[i]:
            later = [j for j in later if not dflag[j]]
        if not later:
            return None
        return paths[draw(st.sampled_from(later))]
    # include graph: file i may include files with a larger index (acyclic)
    for i, path in enumerate(paths):
        items = []
        if i == 0:
            items.append({"k": "block", "lines": ["[ defaults ]", f"1 {draw(st.sampled_from([1, 2]))} "
                                                                  f"{draw(st.sampled_from(['yes', 'no']))} 1.0 1.0"]})
            items.append({"k": "block", "lines": ["[ atomtypes ]"] + [f"{t} 36.0 0.0 A 0.3 1.0" for t in ATYPES]})
        pre = []
        for _ in range(draw(st.integers(0, 4))):
            what = draw(st.sampled_from(["define", "block", "include", "include", "error"]))
            if what == "define" and not dflag[i]:
                what = "block"
            if what == "define":
                value = draw(st.sampled_from([None, None, ["0.25", "1500"], ["gb_7"]]))
                pre.append({"k": "define", "name": draw(st.sampled_from(TAGS + ["gb_1"])), "value": value})
            elif what == "block":
                pre.append(draw(_block(None)))
            elif what == "include" and i < len(paths) - 1:
                want_cond = draw(st.booleans())
                target = pick_target(i, want_cond)
                if target is None:
                    continue
                cond = None
                if want_cond:
                    cond = {"kind": draw(st.sampled_from(["ifdef", "ifndef"])), "tag": draw(st.sampled_from(TAGS)),
                            "else": None}
                    if draw(st.integers(0, 3)) == 0:
                        other = pick_target(i, True)
                        if other is not None:
                            cond["else"] = {"k": "include", "path": other}
                    elif draw(st.integers(0, 5)) == 0:
                        cond["else"] = {"k": "error", "msg": "else branch"}
                pre.append({"k": "include", "path": target, "cond": cond})
            elif what == "error":
                if draw(st.integers(0, 2)) == 0:
                    cond = {"kind": draw(st.sampled_from(["ifdef", "ifndef"])), "tag": draw(st.sampled_from(TAGS)),
                            "else": None}
                    pre.append({"k": "error", "msg": "not supported", "cond": cond})
        items += pre
        for _ in range(draw(st.integers(0 if i else 1, 2))):
            name = f"M{len(mol_names)}"
            if mol_names and draw(st.integers(0, 5)) == 0 and mol_names[0].lower() not in mol_names:
                name = mol_names[0].lower()       # a molecule type whose name differs from another one in case only
            mol_names.append(name)
            items.append(draw(_mol(name)))
            if i < len(paths) - 1 and draw(st.integers(0, 3)) == 0:
                want_cond = unsafe and draw(st.booleans())
                target = pick_target(i, want_cond)
                if target is None:
                    continue
                cond = None
                if want_cond:
                    cond = {"kind": draw(st.sampled_from(["ifdef", "ifndef"])), "tag": draw(st.sampled_from(TAGS)),
                            "else": None}
                items.append({"k": "include", "path": target, "cond": cond})
        files[path] = items
    # make sure most files are reached: every file j >= 1 gets an includer i < j
    for j in range(1, len(paths)):
        if draw(st.integers(0, 5)) == 0:
            continue
        cands = [i for i in range(j) if dflag[i]] if dflag[j] else list(range(j))
        if not cands:
            continue
        i = draw(st.sampled_from(cands))
        cond = None
        if not dflag[j] and draw(st.booleans()):
            cond = {"kind": draw(st.sampled_from(["ifdef", "ifndef"])), "tag": draw(st.sampled_from(TAGS)),
                    "else": None}
        items = files[paths[i]]
        first_mol = next((k for k, it in enumerate(items) if it["k"] == "mol"), len(items))
        lo = 2 if i == 0 else 0
        pos = draw(st.integers(min(lo, first_mol), first_mol))
        items.insert(pos, {"k": "include", "path": paths[j], "cond": cond})
    if draw(st.integers(0, 5)) == 0:
        # an #include of a file that does not exist, with or without a condition: reading fails exactly when the
        # include is active (an inactive one is never looked at)
        src = draw(st.sampled_from(paths))
        cond = None
        if draw(st.integers(0, 3)) > 0:
            cond = {"kind": draw(st.sampled_from(["ifdef", "ifndef"])), "tag": draw(st.sampled_from(TAGS)), "else": None}
            if draw(st.integers(0, 3)) == 0:
                # the missing file is named in the #else branch of a conditional whose first branch exists
                others = [p_ for p_ in paths if p_ > src]
                cond["else"] = {"k": "include", "path": posixpath.join(posixpath.dirname(src), "gone", "absent.itp"), "missing": True}
        items = files[src]
        first_mol = next((k for k, it in enumerate(items) if it["k"] == "mol"), len(items))
        lo = 2 if src == "main.top" else 0
        pos = draw(st.integers(min(lo, first_mol), first_mol))
        if cond and cond["else"]:
            if draw(st.booleans()):
                items.insert(pos, {"k": "error", "msg": "first branch", "cond": cond})
            else:
                cond["else"] = None
        if not (cond and cond["else"]):
            items.insert(pos, {"k": "include", "path": posixpath.join(posixpath.dirname(src), "gone", "absent.itp"),
                               "cond": cond, "missing": True})
    if draw(st.integers(0, 5)) == 0:
        # pragmas after the title of [ system ], before [ molecules ]: an include (plain or conditional) of a
        # file with one more table, and possibly a define
        files["late.itp"] = [draw(_block(ATYPES))]
        paths.append("late.itp")
        cond = None
        if draw(st.booleans()):
            cond = {"kind": draw(st.sampled_from(["ifdef", "ifndef"])), "tag": draw(st.sampled_from(TAGS)), "else": None}
        files["__system__"] = [{"k": "include", "path": "late.itp", "cond": cond}]
        if draw(st.booleans()):
            files["__system__"].insert(draw(st.integers(0, 1)), {"k": "define", "name": "LATE_MACRO", "value": ["0.1", "2"]})
    # white space between the pragma word and its macro: blanks and tabs
    for items in files.values():
        for it in items:
            if it.get("cond"):
                it["cond"]["sep"] = draw(st.sampled_from([" ", " ", "  ", "\t", " \t"]))
    spec = {"files": files, "paths": paths, "path_mode": draw(st.sampled_from(["abs", "rel", "rel_sub"])),
            "trivia_seed": draw(st.integers(0, 10**6)), "rng": draw(st.integers(0, 2**31 - 1))}
    # molecules section from the molecule types that are active in the flattened reading
    flat, err, info = flatten(spec)
    active = info["mols"]
    if not active:
        raise_reject = True
        spec["molecules"] = []
    else:
        spec["molecules"] = [[draw(st.sampled_from(active)), draw(st.integers(1, 3))]
                             for _ in range(draw(st.integers(1, 4)))]
    return spec


def strategy(tier):
    return _strategy()


def f13_shape(spec):
    """a conditional include / error placed after a moleculetype of the same file"""
    for name, items in spec["files"].items():
        # the pragmas inside [ system ] come after everything else of main.top
        seen_mol = name == "__system__" and any(it["k"] == "mol" for it in spec["files"]["main.top"])
        for it in items:
            if it["k"] == "mol":
                seen_mol = True
            elif seen_mol and it["k"] in ("include", "error") and it.get("cond"):
                return True
    return False


KNOWN = {"F13": f13_shape}


# ----------------------------------------------------------------------------
def cond_active(cond, defines):
    if cond is None:
        return True
    return (cond["tag"] in defines) == (cond["kind"] == "ifdef")


def flatten(spec):
    """R2: returns (lines of the single-file equivalent, error message or None, info)."""
    out = []
    defines = {}
    info = {"mols": [], "false_conditional_include": 0, "nested_include": 0, "includes": 0}
    error = []

    def walk(path, depth):
        for it in spec["files"][path]:
            if error:
                return
            kind = it["k"]
            if kind == "define":
                defines[it["name"]] = it["value"]
                out.append("#define " + it["name"] + ("" if it["value"] is None else " " + " ".join(it["value"])))
            elif kind == "block":
                out.extend(it["lines"])
            elif kind == "mol":
                out.extend(it["lines"])
                if it["name"] not in info["mols"]:
                    info["mols"].append(it["name"])
            elif kind in ("include", "error"):
                cond = it.get("cond")
                branch = it if cond_active(cond, defines) else (cond or {}).get("else")
                if cond is not None and not cond_active(cond, defines) and kind == "include":
                    info["false_conditional_include"] += 1
                if branch is None:
                    continue
                if branch["k"] == "error":
                    error.append(branch["msg"])
                    return
                if branch.get("missing"):
                    info["missing_conditional"] = cond is not None
                    error.append("MISSING-FILE")
                    return
                info["includes"] += 1
                if depth >= 1:
                    info["nested_include"] += 1
                target = posixpath.normpath(posixpath.join(posixpath.dirname(path), rel_include(path, branch["path"])))
                walk(target, depth + 1)

    walk("main.top", 0)
    if "__system__" in spec["files"] and not error:
        mark = len(out)
        walk("__system__", 0)
        info["system_lines"] = out[mark:]
        del out[mark:]
    return out, (error[0] if error else None), info


def rel_include(src, target):
    """the path written in the #include line: relative to the including file"""
    return posixpath.relpath(target, posixpath.dirname(src) or ".")


def render_file(spec, path, rnd, main_tail):
    lines = []

    def trivia():
        r = rnd.random()
        if r < 0.15:
            lines.append("; a comment line")
        elif r < 0.25:
            lines.append("")
        elif r < 0.30:
            lines.append("* star comment as in GROMACS library files")
        elif r < 0.33:
            lines.append("   \t ")

    def emit(text):
        r = rnd.random()
        if r < 0.15 and not text.startswith("#"):
            text = text + " ; trailing comment"
        elif r < 0.3:
            text = text + "  \t"
        elif r < 0.4 and not text.startswith("#") and not text.startswith("["):
            text = text.replace(" ", "\t", 1)
        lines.append(text)

    for it in spec["files"][path]:
        trivia()
        kind = it["k"]
        if kind == "define":
            emit("#define " + it["name"] + ("" if it["value"] is None else " " + " ".join(it["value"])))
        elif kind in ("block", "mol"):
            for ln in it["lines"]:
                emit(ln)
                if not ln.startswith("#"):
                    trivia()
        else:
            cond = it.get("cond")

            def one(branch):
                if branch["k"] == "error":
                    emit("#error " + branch["msg"])
                else:
                    emit(f'#include "{rel_include(path, branch["path"])}"')
            if cond:
                emit(f"#{cond['kind']}{cond.get('sep', ' ')}{cond['tag']}")
                one(it)
                if cond.get("else"):
                    emit("#else")
                    one(cond["else"])
                emit("#endif")
            else:
                one(it)
    if path == "main.top":
        lines += main_tail
    return "\n".join(lines) + "\n"


def summary(topology):
    """comparable snapshot of a Topology"""
    snap = {}
    snap["defaults"] = dict(topology.defaults)
    snap["atom_types"] = {k: dict(v) for k, v in topology.atom_types.items()}
    types = {}
    for inter, table in topology.types.items():
        for atoms, entries in table.items():
            types[(inter, tuple(atoms))] = [(list(p), dict(m) if m else None) for p, m in entries]
    snap["types"] = types
    snap["defines"] = {k: (list(v) if isinstance(v, (list, tuple)) else v) for k, v in topology.defines.items()}
    snap["nonbond_params"] = {tuple(sorted(k)): dict(v) for k, v in topology.nonbond_params.items()}
    blocks = {}
    for name, block in topology.force_field.blocks.items():
        atoms = [(n, block.nodes[n].get("atomname"), block.nodes[n].get("atype"), block.nodes[n].get("resid"),
                  block.nodes[n].get("resname"), block.nodes[n].get("charge_group"), block.nodes[n].get("charge"),
                  block.nodes[n].get("mass")) for n in block.nodes]
        inter = {}
        for sec, items in block.interactions.items():
            inter[sec] = sorted((tuple(i.atoms), tuple(str(p) for p in i.parameters),
                                 tuple(sorted((k, str(v)) for k, v in i.meta.items()))) for i in items)
        blocks[name] = (block.nrexcl, atoms, {k: v for k, v in inter.items() if v})
    snap["blocks"] = blocks
    snap["molecules"] = [m.mol_name for m in topology.molecules]
    snap["mol_idx_by_name"] = {k: list(v) for k, v in topology.mol_idx_by_name.items() if v}
    snap["description"] = list(topology.description)
    return snap


def check(spec, ctx):
    import random
    from polyply.src.topology import Topology
    flat, err, info = flatten(spec)
    if not spec.get("molecules") and err != "MISSING-FILE":
        raise Reject("no active molecule type")
    mol_lines = ["[ molecules ]"] + [f"{n} {c}" for n, c in spec["molecules"]]
    rnd = random.Random(spec["trivia_seed"])
    tail = ["[ system ]", "generated system"] + mol_lines
    tree_tail = tail
    if "__system__" in spec["files"]:
        tree_tail = ["[ system ]", "generated system"] + render_file(spec, "__system__", rnd, []).rstrip("\n").split("\n") + mol_lines
        tail = ["[ system ]", "generated system"] + info.get("system_lines", []) + mol_lines
        ctx.label("pragmas_inside_system_section")
    root = ctx.dir / "tree"
    for path in spec["paths"]:
        full = root / path
        full.parent.mkdir(parents=True, exist_ok=True)
        text = render_file(spec, path, rnd, tree_tail)
        # a file need not end with a line break: its last line counts all the same
        if spec["trivia_seed"] % 3 == 0 and (path == "main.top" or spec["trivia_seed"] % 2 == 0):
            text = text.rstrip("\n")
            if path == "main.top":
                ctx.label("main_file_without_final_line_break")
        full.write_text(text)
    flat_dir = ctx.dir / "flat"
    flat_dir.mkdir()
    (flat_dir / "flat.top").write_text("\n".join(flat + tail) + "\n")
    cwd = os.getcwd()

    def decoys(where):
        """files with the relative names used in #include lines, placed in the working directory of the
        process: an include is looked up relative to the including file, so these are never read"""
        count = 0
        for src, items in spec["files"].items():
            for it in items:
                branches = [it] if it["k"] == "include" else []
                if it.get("cond") and isinstance(it["cond"].get("else"), dict) and it["cond"]["else"].get("k") == "include":
                    branches.append(it["cond"]["else"])
                for br in branches:
                    written = rel_include(src, br["path"])
                    right = (root / posixpath.dirname(src) / written).resolve()
                    decoy = (where / written).resolve()
                    if decoy == right or decoy.exists() or not str(decoy).startswith(str(ctx.dir.resolve())):
                        continue
                    decoy.parent.mkdir(parents=True, exist_ok=True)
                    decoy.write_text("#error this file is not part of the include tree\n")
                    count += 1
        if count:
            ctx.label("decoy_in_working_directory")

    try:
        if spec["path_mode"] == "abs":
            arg = str(root / "main.top")
            decoys(__import__("pathlib").Path(cwd))
        elif spec["path_mode"] == "rel":
            os.chdir(root)
            arg = "main.top"
            decoys(root)
        else:
            os.chdir(ctx.dir)
            arg = "tree/main.top"
            decoys(ctx.dir)
        try:
            tree = Topology.from_gmx_topfile(arg, "test")
            tree_err = None
        except NotImplementedError as exc:
            tree, tree_err = None, exc
        except (IOError, OSError) as exc:
            if err != "MISSING-FILE":
                raise crash("tree:crash", exc)
            tree, tree_err = None, exc
        except Exception as exc:
            raise crash("tree:crash", exc)
    finally:
        os.chdir(cwd)
    if err == "MISSING-FILE":
        if tree_err is None:
            raise Violation("include:missing_file_ignored", "an active #include names a file that does not exist, and reading "
                                                            "went on without it")
        if isinstance(tree_err, NotImplementedError):
            raise Violation("include:other_file_read", f"the missing include was not looked up next to the including file: {tree_err}")
        ctx.label("active_include_of_missing_file")
        ctx.nontrivial = bool(info.get("missing_conditional")) and info["includes"] >= 1
        return
    if err is not None:
        if tree_err is None:
            raise Violation("error:active_error_ignored", f"an active #error ({err}) did not abort reading")
        ctx.label("active_error")
        ctx.nontrivial = info["false_conditional_include"] >= 1 and info["nested_include"] >= 1
        return
    if tree_err is not None:
        raise Violation("error:inactive_error_raised", f"#error raised although its condition is not active: {tree_err}")
    try:
        ref = Topology.from_gmx_topfile(str(flat_dir / "flat.top"), "test")
    except Exception as exc:
        raise crash("flat:crash", exc)
    a, b = summary(tree), summary(ref)
    for key in a:
        if a[key] != b[key]:
            detail = ""
            if isinstance(a[key], dict):
                diff = [k for k in set(a[key]) | set(b[key]) if a[key].get(k) != b[key].get(k)]
                detail = f"differing keys {sorted(map(str, diff))[:4]}: tree={[a[key].get(k) for k in diff][:2]} flat={[b[key].get(k) for k in diff][:2]}"
            else:
                detail = f"tree={a[key]} flat={b[key]}"
            raise Violation(f"tree_vs_flat:{key}", detail[:500])
    expanded = [n for n, c in spec["molecules"] for _ in range(c)]
    if a["molecules"] != expanded:
        raise Violation("molecules:expansion", f"{a['molecules']} expected {expanded}")
    want_idx = {}
    for i, n in enumerate(expanded):
        want_idx.setdefault(n, []).append(i)
    if a["mol_idx_by_name"] != want_idx:
        raise Violation("molecules:mol_idx_by_name", f"{a['mol_idx_by_name']} expected {want_idx}")
    # independent instances
    mols = tree.molecules
    for i in range(len(mols)):
        for j in range(i + 1, len(mols)):
            if mols[i] is mols[j] or mols[i].molecule is mols[j].molecule:
                raise Violation("molecules:aliased_instances", f"instances {i} and {j} are the same object")
            for node in mols[i].nodes:
                if node in mols[j].nodes and mols[i].nodes[node] is mols[j].nodes[node]:
                    raise Violation("molecules:aliased_instances", f"instances {i} and {j} share residue attribute dicts")
            for node in mols[i].molecule.nodes:
                if node in mols[j].molecule.nodes and mols[i].molecule.nodes[node] is mols[j].molecule.nodes[node]:
                    raise Violation("molecules:aliased_instances", f"instances {i} and {j} share atom attribute dicts")
    if info["false_conditional_include"]:
        ctx.label("false_conditional_include")
    if info["nested_include"]:
        ctx.label("nested_include")
    if len(set(expanded)) < len(expanded):
        ctx.label("repeated_molecule_name")
    ctx.label("path_" + spec["path_mode"])
    ctx.nontrivial = info["false_conditional_include"] >= 1 and info["nested_include"] >= 1
