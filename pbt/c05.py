"""C05 - generated residues are one step apart, inside the box, never overlapping."""
import numpy as np
import hypothesis.strategies as st

from . import gc, c03
from .core import Violation, Reject, crash

PID = "C05"
LEVEL = "exploration"
RULE = ("C03 systems with mixed residue sizes in cubic and rectangular boxes from 3 nm (so that chains cross box "
        "faces), user grids (points with up to seven decimals), step factors 0.7-1.2, force limits 1e3-1e5, dilute and moderately dense; every call "
        "of NonBondEngine.add_positions is intercepted and judged against the engine state at that moment: point "
        "inside [0,L)^3; a residue-graph neighbour already positioned at minimum-image distance step_factor * "
        "mean size (rel 1e-9) unless it is a start placement, which must be a row of the start grid; no positioned "
        "residue within 0.1 nm; brute-force minimum-image 12-6 force from positioned non-neighbours inside the "
        "cut-off <= max force. One case in forty supplies 5001-5600 single-bead molecules so that the engine "
        "keeps its placements in a second neighbour tree; one in twelve lists the chains to build before supplied single-bead molecules, with user start points on or next to supplied beads. non-trivial = >=1 accepted step that crosses a box face and >=2 residue sizes; "
        "distinct = spec hash")
ASSUMPTIONS = ["residue sizes are the values in Topology.volumes for the residue's template key (captured)",
               "the cut-off is the engine's own (twice the largest size)", "time-outs are inconclusive"]
RULE += (' A third of the eligible systems carry a [ distance_restraints ] entry on the first molecule type: the limits on accepted positions stay the same.')
BUDGET = {"quick": (16, 40), "thorough": (16, 1500)}


@st.composite
def _rings(draw):
    """many small rings of small single-bead residues: every ring closure places a residue next to a
    positioned graph neighbour other than the one it is grown from"""
    sigma = draw(st.sampled_from([0.2, 0.3]))
    res = {"resname": "RA", "atoms": [{"name": "a1", "type": "TA", "mass": 36.0}], "bonds": [], "vs": None}
    n = draw(st.integers(3, 4))
    mt = {"name": "MA", "residues": [res] * n, "res_edges": [[i, (i + 1) % n] for i in range(n)], "shape": "ring"}
    count = draw(st.integers(25, 60))
    edge = round((count * n * 14.0) ** (1.0 / 3.0), 1)
    return {"rng": draw(st.integers(0, 2**31 - 1)), "comb": 2,
            "atomtypes": [{"name": "TA", "mass": 36.0, "sigma": sigma, "eps": 2.0}],
            "moltypes": [mt], "molecules": [["MA", count]],
            "opts": {"box": [edge, edge, edge], "step_fudge": draw(st.sampled_from([0.8, 1.0])),
                     "grid_spacing": 0.5}, "coords": None, "build": None}


@st.composite
def _large(draw):
    """more than 5000 supplied single-bead molecules (the engine then keeps the residues it places in a
    second neighbour tree) below a free slab in which one to three chains are built with a low force limit"""
    n = draw(st.integers(5001, 5600))
    w = {"resname": "W", "atoms": [{"name": "w", "type": "TB", "mass": 72.0}], "bonds": [], "vs": None}
    ra = {"resname": "RA", "atoms": [{"name": "a1", "type": "TA", "mass": 72.0}], "bonds": [], "vs": None}
    length = draw(st.integers(3, 8))
    sol = {"name": "SOL", "residues": [w], "res_edges": [], "shape": "linear"}
    ma = {"name": "MA", "residues": [ra] * length, "res_edges": [[i, i + 1] for i in range(length - 1)], "shape": "linear"}
    return {"rng": draw(st.integers(0, 2**31 - 1)), "comb": 2,
            "atomtypes": [{"name": "TA", "mass": 72.0, "sigma": 0.47, "eps": 2.0},
                          {"name": "TB", "mass": 72.0, "sigma": draw(st.sampled_from([0.43, 0.47])), "eps": 2.0}],
            "moltypes": [sol, ma], "molecules": [["SOL", n], ["MA", draw(st.integers(1, 3))]],
            "opts": {"box": [10.0, 10.0, 10.0], "max_force": draw(st.sampled_from([300.0, 1000.0]))},
            "build": None, "coords": None, "fill": n}


@st.composite
def _later_supplied(draw):
    """the chains to build are listed first, the supplied single-bead molecules after them (-res names the chain's
    residues); most of the user's start points lie on or right next to a supplied bead, a few are free"""
    n = draw(st.integers(27, 64))
    w = {"resname": "W", "atoms": [{"name": "w", "type": "TB", "mass": 72.0}], "bonds": [], "vs": None}
    ra = {"resname": "RA", "atoms": [{"name": "a1", "type": "TA", "mass": 72.0}], "bonds": [], "vs": None}
    length = draw(st.integers(1, 5))
    sol = {"name": "SOL", "residues": [w], "res_edges": [], "shape": "linear"}
    ma = {"name": "MA", "residues": [ra] * length, "res_edges": [[i, i + 1] for i in range(length - 1)], "shape": "linear"}
    nchain = draw(st.integers(1, 2))
    beads = [[round(0.25 + 0.5 * (k % 4), 3), round(0.25 + 0.5 * ((k // 4) % 4), 3), round(0.25 + 0.5 * (k // 16), 3)]
             for k in range(n)]
    near = draw(st.lists(st.sampled_from(beads), min_size=6, max_size=14))
    shift = draw(st.sampled_from([[0.0, 0.0, 0.0], [0.05, 0.0, 0.0], [0.0, 0.2, 0.0], [0.15, 0.15, 0.0]]))
    free = [[4.5 + 0.0 * i, 1.0 + 1.5 * i, 4.5] for i in range(3)] + [[1.0 + 1.5 * i, 4.5, 4.0] for i in range(2)]
    grid = [[round(p[0] + shift[0], 3), round(p[1] + shift[1], 3), round(p[2] + shift[2], 3)] for p in near] + free
    grid = list(draw(st.permutations(grid)))
    atoms = [[1, "W", "w", b] for b in beads]
    box = [6.0, 6.0, 6.0]
    spec = {"rng": draw(st.integers(0, 2**31 - 1)), "comb": 2,
            "atomtypes": [{"name": "TA", "mass": 72.0, "sigma": 0.47, "eps": 2.0},
                          {"name": "TB", "mass": 72.0, "sigma": draw(st.sampled_from([0.43, 0.47])), "eps": 2.0}],
            "moltypes": [ma, sol], "molecules": [["MA", nchain], ["SOL", n]],
            "opts": {"box": box, "max_force": draw(st.sampled_from([300.0, 1000.0, 5e4])), "grid": grid,
                     "build_res": ["RA"]},
            "build": None, "later_supplied": True,
            "coords": {"mode": "c", "nres": n, "atoms": atoms, "box": box, "total_res": n}}
    return spec


@st.composite
def _singles(draw):
    """many one-residue molecules (their only residue is a start placement), optionally followed by a short chain,
    on a user grid with few spare points: start points next to and on top of each other are drawn all the time"""
    w = {"resname": "W", "atoms": [{"name": "w", "type": "TB", "mass": 72.0}], "bonds": [], "vs": None}
    ra = {"resname": "RA", "atoms": [{"name": "a1", "type": "TA", "mass": 72.0}], "bonds": [], "vs": None}
    n = draw(st.integers(10, 40))
    length = draw(st.integers(2, 4))
    sol = {"name": "SOL", "residues": [w], "res_edges": [], "shape": "linear"}
    ma = {"name": "MA", "residues": [ra] * length, "res_edges": [[i, i + 1] for i in range(length - 1)], "shape": "linear"}
    molecules = [["SOL", n]]
    nchain = draw(st.integers(0, 2))
    if nchain:
        molecules.insert(draw(st.integers(0, 1)), ["MA", nchain])
    sig_b = draw(st.sampled_from([0.3, 0.43, 0.47]))
    spacing = draw(st.sampled_from([0.4, 0.5, 0.6] if sig_b == 0.3 else [0.55, 0.6, 0.7]))
    per = 5
    lattice = [[round(0.3 + spacing * i, 3), round(0.3 + spacing * j, 3), round(0.3 + spacing * k, 3)]
               for i in range(per) for j in range(per) for k in range(per)]
    npts = min(len(lattice), 3 * (n + nchain) + 10)
    grid = list(draw(st.permutations(lattice)))[:npts]
    edge = round(max(4.0, 0.6 + spacing * per + 0.6 * length), 1)
    return {"rng": draw(st.integers(0, 2**31 - 1)), "comb": 2,
            "atomtypes": [{"name": "TA", "mass": 72.0, "sigma": 0.47, "eps": 2.0},
                          {"name": "TB", "mass": 72.0, "sigma": sig_b, "eps": 2.0}],
            "moltypes": [ma, sol], "molecules": molecules,
            "opts": dict({"box": [edge, edge, edge], "max_force": draw(st.sampled_from([1e3, 1e4, 5e4])), "grid": grid},
                         **({"maxiter": draw(st.sampled_from([0, 1]))} if draw(st.booleans()) else {})),
            "build": None, "coords": None, "singles": True}


def _fill(spec):
    """coordinates of the spec["fill"] supplied beads: a 0.5 nm lattice filled layer by layer from z = 0"""
    n = spec["fill"]
    atoms = []
    for k in range(n):
        ix, iy, iz = k % 20, (k // 20) % 20, k // 400
        atoms.append([1, "W", "w", [round(0.25 + 0.5 * ix, 3), round(0.25 + 0.5 * iy, 3), round(0.25 + 0.5 * iz, 3)]])
    total = n + sum(c * len(mt["residues"]) for mt in spec["moltypes"] for nm, c in spec["molecules"] if nm == mt["name"] and nm != "SOL")
    return dict(spec, coords={"mode": "c", "nres": n, "atoms": atoms, "box": list(spec["opts"]["box"]), "total_res": total})


@st.composite
def _contrast(draw):
    """chains of large three-atom residues (size about 1.6 nm) followed by chains of small one-bead residues
    (0.2-0.3 nm) in a fairly dense box with a low force limit: the small ones are placed among the large ones"""
    big = {"resname": "RA", "atoms": [{"name": f"a{i + 1}", "type": "TA", "mass": 72.0} for i in range(3)],
           "bonds": [[0, 1, 0.47], [1, 2, 0.47]], "vs": None}
    small = {"resname": "RB", "atoms": [{"name": "b1", "type": "TB", "mass": 36.0}], "bonds": [], "vs": None}
    nbig, nsmall = draw(st.integers(3, 5)), draw(st.integers(4, 8))
    moltypes = [{"name": "MA", "residues": [big] * nbig, "shape": "linear", "nrexcl": 1,
                 "res_edges": [[i, i + 1] for i in range(nbig - 1)]},
                {"name": "MB", "residues": [small] * nsmall, "shape": "linear", "nrexcl": 1,
                 "res_edges": [[i, i + 1] for i in range(nsmall - 1)]}]
    counts = [draw(st.integers(4, 8)), draw(st.integers(8, 16))]
    edge = round((counts[0] * nbig * 4.5 + counts[1] * nsmall * 0.3) ** (1.0 / 3.0) + 0.5, 1)
    return {"rng": draw(st.integers(0, 2**31 - 1)), "comb": 2,
            "atomtypes": [{"name": "TA", "mass": 72.0, "sigma": 0.6, "eps": 2.0},
                          {"name": "TB", "mass": 36.0, "sigma": draw(st.sampled_from([0.2, 0.3])), "eps": 2.0}],
            "moltypes": moltypes, "molecules": [["MA", counts[0]], ["MB", counts[1]]],
            "opts": {"box": [edge, edge, edge], "max_force": draw(st.sampled_from([100.0, 500.0])), "grid_spacing": 0.5},
            "coords": None, "build": None}


@st.composite
def _strategy(draw):
    if draw(st.integers(0, 7)) == 0:
        return draw(_rings())
    if draw(st.integers(0, 9)) == 0:
        return draw(_contrast())
    if draw(st.integers(0, 11)) == 0:
        return draw(_later_supplied())
    if draw(st.integers(0, 11)) == 0:
        return draw(_singles())
    if draw(st.integers(0, 39)) == 0:
        return draw(_large())
    spec = draw(gc.system(max_res=8, max_total_mol=5, variants=True))
    by_name = {mt["name"]: mt for mt in spec["moltypes"]}
    nres = sum(cnt * len(by_name[name]["residues"]) for name, cnt in spec["molecules"])
    dense = draw(st.integers(0, 3)) == 0
    vol_per_res = 6.0 if dense else 22.0
    edge = max(3.0, round((nres * vol_per_res) ** (1.0 / 3.0), 1))
    shape = draw(st.integers(0, 5))
    if shape == 0:
        # long in x, short in y and z, same volume: most placements happen close to a y or z face
        short = max(2.4, round(edge * 0.6, 1))
        box = [round(edge ** 3 / short ** 2, 1), short, short]
    elif shape <= 2:
        box = [edge, edge, edge]
    else:
        box = [edge, round(edge + draw(st.sampled_from([0.4, 1.1])), 2),
               round(max(3.0, edge - draw(st.sampled_from([0.0, 0.5]))), 2)]
    opts = {"box": box, "step_fudge": draw(st.sampled_from([0.7, 0.85, 1.0, 1.2])),
            "max_force": draw(st.sampled_from([50.0, 100.0, 300.0, 1e3, 1e4, 5e4, 1e5])),
            "grid_spacing": draw(st.sampled_from([0.2, 0.5]))}
    if draw(st.integers(0, 3)) == 0:
        # user grids come at any precision (exported with six or more decimals as often as not)
        off = draw(st.sampled_from([0.3, 0.3, 0.312345, 0.2871934]))
        lattice = [[off + i, off + j, off + k] for i in range(int(box[0])) for j in range(int(box[1]))
                   for k in range(int(box[2]))]
        nmol = sum(c for _, c in spec["molecules"])
        npts = min(len(lattice), 3 * nmol + 10)
        opts["grid"] = draw(st.permutations(lattice))[:npts]
    if draw(st.booleans()):
        opts["nrewind"] = draw(st.integers(1, 5))
    if dense and draw(st.booleans()):
        # few attempts per molecule (-mi): in a crowded box molecules run out of them and are started over; the
        # limits in force stay what the user gave
        opts["maxiter"] = draw(st.sampled_from([0, 1, 2]))
    if "grid" not in opts and draw(st.integers(0, 3)) == 0:
        # part of the system comes with coordinates: the first built residue of a partly supplied chain is
        # grown from a supplied one, at the same step length as everywhere else
        from . import c03
        total = sum(cnt * len(by_name[name]["residues"]) for name, cnt in spec["molecules"])
        if total >= 2:
            spec["coords"] = draw(c03.supplied_coords(spec, box, mode=draw(st.sampled_from(["c", "mc"])),
                                                      nres=draw(st.integers(1, total - 1))))
    if box[0] == box[1] == box[2] and not spec.get("coords") and draw(st.integers(0, 3)) == 0:
        # the same cubic box requested through the density instead of -box
        opts["density"] = gc.total_mass(spec) * 1.660541 / box[0] ** 3
        opts["box"] = None
        opts["density_box"] = box
    spec["opts"] = opts
    resn = sorted({r["resname"] for mt in spec["moltypes"] for r in mt["residues"]})
    if len(resn) <= 3 and not spec.get("build") and draw(st.integers(0, 3)) == 0:
        # bending stiffness for every residue triple (a build-file [ bending ] section): steps are then also
        # accepted or refused by the angle they make, near box faces too
        k = draw(st.sampled_from([1.0, 5.0]))
        spec["build"] = ["[ bending ]"] + [f"{a} {b} {c} {k}" for a in resn for b in resn for c in resn]
        spec["bending"] = True
    first_name, first_count = spec["molecules"][0]
    mt0 = by_name[first_name]
    if not spec.get("build") and not spec.get("coords") and mt0.get("shape") == "linear" and len(mt0["residues"]) >= 4 \
            and draw(st.integers(0, 2)) == 0:
        # a distance restraint on the molecules of the first [ molecules ] line: the limits on every accepted
        # position stay what they are (the restrained residues are ordinary neighbours to each other otherwise)
        n0 = len(mt0["residues"])
        a = draw(st.integers(0, n0 - 4))
        b = draw(st.integers(a + 3, n0 - 1))
        dist = round(0.3 * (b - a) + 0.1, 2)
        spec["build"] = ["[ molecule ]", f"{first_name} 0 {first_count}", "[ distance_restraints ]",
                         f"{a} {b} {dist!r} {draw(st.sampled_from([0.3, 0.5]))!r}"]
        spec["distance_restraint"] = True
    return spec


def strategy(tier):
    return _strategy()


def min_image(vec, box):
    return vec - box * np.round(vec / box)


def check(spec, ctx):
    from polyply.src.graph_utils import neighborhood
    if spec.get("fill"):
        spec = _fill(spec)
        ctx.label("second_neighbour_tree")
    if spec.get("bending"):
        ctx.label("bending_stiffness")
    if spec.get("distance_restraint"):
        ctx.label("distance_restraint")
    if spec.get("fill"):
        pass
    elif spec.get("singles"):
        ctx.label("many_one_residue_molecules")
    elif spec.get("later_supplied"):
        ctx.label("built_molecules_listed_before_supplied_ones")
    elif spec.get("coords"):
        ctx.label("partly_supplied")
    opts = spec["opts"]
    sf = opts.get("step_fudge", 1.0)
    max_force = opts.get("max_force", 5e4)
    stats = {"adds": 0, "cross": 0, "starts": 0, "sizes": set()}
    accepted_at = {}

    def size_of(engine, res, mol_idx, node):
        topo = res.topology
        meta = topo.molecules[mol_idx]
        key = meta.nodes[node].get("template", meta.nodes[node]["resname"])
        return topo.volumes[key]

    def on_add(engine, point, mol_idx, node, start, res):
        box = np.array(engine.boxsize, dtype=float)
        stats["adds"] += 1
        topo = res.topology
        meta = topo.molecules[mol_idx]
        if np.any(point < 0) or np.any(point >= box):
            raise Violation("outside_box", f"residue ({mol_idx},{node}) placed at {point}, box {box}")
        positioned = {}
        for (mi, nd), g in engine.nodes_to_gndx.items():
            pos = engine.positions[g]
            if np.all(np.isfinite(pos)):
                positioned[(mi, nd)] = pos
        if (mol_idx, node) in positioned:
            raise Violation("placed_twice", f"residue ({mol_idx},{node}) already has a position")
        # residues accepted earlier stay where they were put (until they are removed)
        for key, pos in positioned.items():
            old = accepted_at.get(key)
            if old is not None and not np.array_equal(old, pos):
                raise Violation("accepted_residue_moved", f"residue {key} was placed at {old} and is now at {pos}")
        accepted_at[(mol_idx, node)] = np.array(point, dtype=float).copy()
        my_size = size_of(engine, res, mol_idx, node)
        stats["sizes"].add(round(my_size, 6))
        if start:
            stats["starts"] += 1
            if opts.get("grid"):
                # the user's own start points
                user = np.asarray(opts["grid"], dtype=float)
                if not np.any(np.all(np.abs(user - point) < 1e-9, axis=1)):
                    raise Violation("start_not_on_user_grid", f"first residue ({mol_idx},{node}) at {point} is not one of the "
                                                              f"{len(user)} supplied grid points")
            else:
                # the default start grid: multiples of the grid spacing inside the box
                gs = opts.get("grid_spacing", 0.2)
                k = np.round(point / gs)
                if np.any(np.abs(point - k * gs) > 1e-9) or np.any(point < 0) or np.any(point >= box):
                    raise Violation("start_not_on_grid", f"first residue ({mol_idx},{node}) at {point} is not a point of the "
                                                         f"{gs} nm lattice in the box {box}")
        else:
            ok = False
            seen = []
            for nb in meta.neighbors(node):
                if (mol_idx, nb) not in positioned:
                    continue
                d = float(np.linalg.norm(min_image(point - positioned[(mol_idx, nb)], box)))
                want = sf * 0.5 * (my_size + size_of(engine, res, mol_idx, nb))
                seen.append((nb, d, want))
                if abs(d - want) <= 1e-9 * max(1.0, want):
                    ok = True
                    raw = point - positioned[(mol_idx, nb)]
                    if np.any(np.abs(raw - min_image(raw, box)) > 1e-9):
                        stats["cross"] += 1
            if not ok:
                raise Violation("step_length", f"residue ({mol_idx},{node}) at {point}: no positioned graph neighbour at the "
                                               f"step length; (neighbour, distance, expected) = {seen}")
        # overlap and force at the moment of acceptance
        excluded = {(mol_idx, n) for n in neighborhood(meta, node, 1)} | {(mol_idx, node)}
        # the cut-off is twice the largest pair size of the system, whatever the box (computed here, not read
        # from the engine's own attribute)
        cut_off = 2.0 * max(v[0] for v in engine.interaction_matrix.values())
        total = np.zeros(3)
        my_type = engine.atypes[engine.nodes_to_gndx[(mol_idx, node)]]
        for key, pos in positioned.items():
            vec = min_image(point - pos, box)
            r = float(np.linalg.norm(vec))
            if r < 0.1:
                raise Violation("closer_than_floor", f"residue ({mol_idx},{node}) at {point} is {r:.4f} nm from residue {key}")
            if r > cut_off or key in excluded:
                continue
            sig, eps = engine.interaction_matrix[frozenset((my_type, engine.atypes[engine.nodes_to_gndx[key]]))]
            total += 24 * eps / r * (2 * (sig / r) ** 12 - (sig / r) ** 6) * vec / r
        if float(np.linalg.norm(total)) > max_force * (1 + 1e-9):
            raise Violation("force_above_limit", f"residue ({mol_idx},{node}) accepted with |F|={np.linalg.norm(total):.4g} > {max_force}")

    res = gc.run_gen_coords(spec, ctx, on_add=on_add, timeout=60 if spec.get("fill") else (8 if spec.get("singles") else 15))
    if res.exc is not None:
        if isinstance(res.exc, Violation):
            raise res.exc
        if isinstance(res.exc, (IOError, OSError)):
            raise Reject(str(res.exc)[:200])
        if gc.refused_outside_box(res.exc, spec):
            raise Reject("start structure with coordinates beyond its box")
        raise crash("gen_coords:crash", res.exc)
    # final table: every residue inside the box
    box = np.array(res.engine.boxsize, dtype=float)
    for mi, rows in enumerate(res.after_build):
        for node, pos in rows.items():
            if not np.all(np.isfinite(pos)) or np.any(pos < 0) or np.any(pos >= box):
                raise Violation("final_outside_box", f"residue ({mi},{node}) ends at {pos}, box {box}")
    if stats["cross"]:
        ctx.label("step_across_face")
    if "grid" in opts:
        ctx.label("user_grid")
    if len(stats["sizes"]) >= 2:
        ctx.label("mixed_sizes")
    if spec["moltypes"][0].get("shape") == "ring" and len(spec["moltypes"]) == 1 and spec["molecules"][0][1] >= 25:
        ctx.label("many_ring_closures")
    ctx.nontrivial = stats["cross"] >= 1 and (len(stats["sizes"]) >= 2 or spec["molecules"][0][1] >= 25)
