"""C03 - gen_coords writes one finite coordinate per topology atom, in topology order."""
import math

import numpy as np
import hypothesis.strategies as st

from . import gc
from .core import Violation, Reject, crash

PID = "C03"
LEVEL = "exploration"
RULE = ("Hypothesis-generated systems (2-4 atom types, comb-rule 1/2, 1-3 molecule types of 1-8 residues with "
        "1-4 atoms and optional virtual site, linear/branched/ring, [molecules] lists with repeated names and "
        "counts 1-3) x option sets (-box cubic/rectangular or -dens or both, -c/-mc full/partial, -gs, -grid, -sf, -mf, "
        "-nr, -start, -res) x polyply RNG seed x (one case in three) a scripted pattern of rejected placement steps, "
        "complete structures that carry a small (<= 1.2 nm) cell, .pdb start structures with and without a CRYST1 record, and a flavour in which supplied and -res residues alternate along chains; the written .gro is parsed independently and compared with the "
        "expansion of [molecules] and with the expected box. non-trivial = (>=2 molecule types used or a "
        "repeated name) and a multi-atom residue; distinct = spec hash")
ASSUMPTIONS = ["independent .gro reader pbt/itp.py", "dilute boxes (placement always converges; time-outs are inconclusive)",
               "box comparison tolerance 1e-4 nm (the density box is rounded to 5 decimals by the program)"]
RULE += (' -mi 0/1/2 with scripted failures, -res names that the last [ molecules ] entry does not hold, and build files dealt out over two or three -b files are part of the domain.')
BUDGET = {"quick": (16, 60), "thorough": (16, 2500)}


@st.composite
def supplied_coords(draw, spec, box, mode=None, nres=None, skip=()):
    """coordinates for a prefix of the residue stream; atoms: 3-decimal values inside the box.
    Residues whose name is listed with -res are not part of the input structure."""
    atoms = [a for a in gc.expanded_atoms(spec) if a[1] not in skip]
    stream = []
    for a in atoms:
        key = (a[3], a[4])
        if not stream or stream[-1] != key:
            stream.append(key)
    if not stream:
        return None
    total = len(stream)
    if nres is None:
        nres = draw(st.sampled_from([total, total, draw(st.integers(1, total))]))
    mode = mode or draw(st.sampled_from(["c", "c", "mc"]))
    # lattice sites of the supplied residues: 0.9 nm apart, at least 0.7 nm (and a residue's extent) away from the
    # faces of the box along every axis; a box too small for nres sites takes fewer supplied residues
    nax = [max(1, int((b - 1.0) // 0.9)) for b in box]
    nres = max(1, min(nres, nax[0] * nax[1] * nax[2]))
    chosen = set(stream[:nres])
    out = []
    k = 0
    centres = {}
    for key in stream[:nres]:
        ix, iy, iz = k % nax[0], (k // nax[0]) % nax[1], k // (nax[0] * nax[1])
        centres[key] = (0.7 + 0.9 * ix, 0.7 + 0.9 * iy, 0.7 + 0.9 * iz)
        k += 1
    if mode != "mc" and draw(st.integers(0, 3)) == 0:
        # one supplied residue of two or more atoms straddles the lower x face: its first atom lies just outside
        # the box (negative coordinate), its centre inside
        multi = [key for key in stream[:nres] if sum(1 for x in atoms if (x[3], x[4]) == key) >= 2]
        if multi:
            key = draw(st.sampled_from(multi))
            centres[key] = (-0.05, centres[key][1], centres[key][2])
    if mode == "mc":
        for key in stream[:nres]:
            a = [x for x in atoms if (x[3], x[4]) == key][0]
            out.append([a[0], a[1], "CG", [round(c, 3) for c in centres[key]]])
    else:
        count = {}
        for a in atoms:
            key = (a[3], a[4])
            if key not in chosen:
                continue
            j = count.get(key, 0)
            count[key] = j + 1
            c = centres[key]
            out.append([a[0], a[1], a[2], [round(c[0] + 0.11 * j, 3), round(c[1] + 0.07 * (j % 2), 3), round(c[2], 3)]])
    return {"mode": mode, "nres": nres, "atoms": out, "box": [float(b) for b in box], "total_res": total}


@st.composite
def _strategy(draw):
    if draw(st.integers(0, 59)) == 0:
        # more than 5000 supplied one-bead molecules and one to three chains to build (C05's large flavour)
        from . import c05
        spec = draw(c05._large())
        spec["opts"].pop("max_force", None)
        if draw(st.booleans()):
            # the molecule to build is a single bead and comes last
            spec["moltypes"][1]["residues"] = spec["moltypes"][1]["residues"][:1]
            spec["moltypes"][1]["res_edges"] = []
            spec["molecules"][1][1] = 1
        return spec
    # one case in four: longer chains in which supplied residues and residues to build (-res) alternate,
    # together with rejected steps
    mixed = draw(st.integers(0, 3)) == 0
    spec = draw(gc.system(max_res=8)) if mixed else draw(gc.system())
    if draw(st.integers(0, 11)) == 0:
        # one residue hangs on the rest of its molecule through a virtual-site construction only (the program
        # may refuse such a molecule; if it builds it, every atom still gets a finite coordinate)
        used = {n for n, _ in spec["molecules"]}
        cands = [(mt, e) for mt in spec["moltypes"] if mt["name"] in used and mt["shape"] != "ring"
                 for e in mt["res_edges"] if len(mt["residues"][e[0]]["atoms"]) >= 2 and mt["residues"][e[0]]["vs"] is None]
        if cands:
            mt, e = draw(st.sampled_from(cands))
            mt["vs_only_edges"] = [list(e)]
            spec["vs_only"] = True
    if draw(st.integers(0, 5)) == 0:
        spec["stale_atomtype"] = draw(st.sampled_from([a["name"] for a in spec["atomtypes"]]))
    if draw(st.integers(0, 3)) == 0:
        spec["include_layout"] = True
        spec["primed"] = draw(st.booleans())
    edge = gc.dilute_box(spec)
    opts = {}
    box_kind = draw(st.sampled_from(["box", "box", "rect", "dens", "both"]))
    if box_kind == "box":
        opts["box"] = [edge, edge, edge]
    elif box_kind == "both":
        # -box and -dens together: the explicit box is the one that counts
        opts["box"] = [edge, round(edge + 0.5, 2), edge]
        opts["density"] = round(gc.total_mass(spec) * 1.660541 / (edge + draw(st.sampled_from([0.7, 1.3]))) ** 3, 4)
    elif box_kind == "rect":
        opts["box"] = [edge, round(edge + draw(st.sampled_from([0.5, 1.0, 2.5])), 2),
                       round(edge + draw(st.sampled_from([0.0, 1.5])), 2)]
    else:
        mass = gc.total_mass(spec)
        target = round(edge + draw(st.sampled_from([0.0, 0.7, 1.3])), 2)    # used again for the grid below
        opts["density"] = round(mass * 1.660541 / target ** 3, 4)
    if mixed or draw(st.integers(0, 3)) == 0:
        resn = sorted({r["resname"] for mt in spec["moltypes"] for r in mt["residues"]})
        # half of the time a name that the last entry of [ molecules ] does not hold (if there is one): an earlier
        # molecule is rebuilt in part while a later one is taken whole from the structure
        last = [mt for mt in spec["moltypes"] if mt["name"] == spec["molecules"][-1][0]][0]
        elsewhere = [n for n in resn if n not in {r["resname"] for r in last["residues"]}]
        if elsewhere and draw(st.booleans()):
            resn = elsewhere
        opts["build_res"] = [draw(st.sampled_from(resn))]
    if mixed or draw(st.integers(0, 2)) == 0:
        cbox = opts.get("box") or [round(edge + 0.5, 2)] * 3
        # the start structure is a .gro file, a .pdb file with a CRYST1 record, or a .pdb file without one (which
        # defines no box: -box / -dens decide, and the coordinates lie inside that box)
        fmt = draw(st.sampled_from(["gro", "gro", "gro", "pdb", "pdb_nocryst"]))
        if fmt == "pdb_nocryst":
            cbox = opts.get("box") or [round(target - 0.05, 2)] * 3
        elif draw(st.integers(0, 3)) == 0:
            # differs from -box: the structure's box wins
            cbox = [round(edge + 1.0, 2), round(edge + 1.0, 2), round(edge + 2.0, 2)]
        spec["coords"] = draw(supplied_coords(spec, cbox, skip=opts.get("build_res", ())))
        crd = spec["coords"]
        if crd and fmt != "gro":
            crd["format"] = "pdb"
            crd["cryst"] = fmt == "pdb"
        if crd and fmt != "pdb_nocryst" and crd["nres"] == crd["total_res"] and crd["mode"] == "c" and not opts.get("build_res") \
                and len(crd["atoms"]) <= 1000 and draw(st.integers(0, 2)) == 0:
            # a complete structure that carries a small cell (e.g. a single molecule dumped from a crystal, not
            # wrapped): nothing is built, the structure and its box are handed on as they are
            crd["box"] = draw(st.sampled_from([[0.95, 0.95, 0.9], [1.0, 0.8, 0.6], [1.0, 1.0, 1.0], [0.5, 1.2, 0.7]]))
            for i, a in enumerate(crd["atoms"]):
                a[3] = [round(0.02 + 0.045 * (i % 10), 3), round(0.02 + 0.045 * ((i // 10) % 10), 3),
                        round(0.02 + 0.045 * (i // 100), 3)]
            spec["small_cell"] = True
    if spec.get("coords") and spec["coords"]["mode"] == "c" and not spec.get("small_cell") and draw(st.integers(0, 7)) == 0:
        # -res names every residue of the system: nothing of the structure file is used but its box
        opts["build_res"] = sorted({r["resname"] for mt in spec["moltypes"] for r in mt["residues"]})
        spec["res_names_everything"] = True
    if draw(st.booleans()):
        opts["grid_spacing"] = draw(st.sampled_from([0.2, 0.5, 1.0]))
    if draw(st.integers(0, 3)) == 0 and not spec.get("small_cell"):
        # the grid has to fit the box that is in effect (the input structure's box wins)
        dens_edge = [round(target - 0.02, 2)] * 3 if box_kind == "dens" else None
        has_box = spec.get("coords") and spec["coords"].get("cryst", True)
        box = (spec["coords"]["box"] if has_box else None) or opts.get("box") or dens_edge or [edge] * 3
        box = [min(a, b) for a, b in zip(box, opts.get("box") or box)] if has_box else box
        # distinct points of a 1 nm lattice (a grid with coinciding points cannot host all molecules); the
        # lattice starts half a nm from the lower faces or is shifted so that its last points lie 0.1 nm
        # below the upper faces
        if draw(st.integers(0, 2)) == 0:
            offs = [round((L - 0.1) - int(L - 0.1), 3) for L in box]
        else:
            offs = [0.5, 0.5, 0.5]
        lattice = [[round(offs[0] + i, 3), round(offs[1] + j, 3), round(offs[2] + k, 3)]
                   for i in range(int(box[0] - offs[0]) + 1) if offs[0] + i < box[0]
                   for j in range(int(box[1] - offs[1]) + 1) if offs[1] + j < box[1]
                   for k in range(int(box[2] - offs[2]) + 1) if offs[2] + k < box[2]]
        nmol = sum(c for _, c in spec["molecules"])
        npts = draw(st.integers(min(len(lattice), 3 * nmol + 5), min(len(lattice), 3 * nmol + 40)))
        opts["grid"] = draw(st.permutations(lattice))[:npts]
    if draw(st.booleans()):
        opts["step_fudge"] = draw(st.sampled_from([0.7, 1.0, 1.2]))
    if draw(st.booleans()):
        opts["nrewind"] = draw(st.integers(1, 6))
    if draw(st.integers(0, 3)) == 0:
        opts["max_force"] = draw(st.sampled_from([1e3, 1e4, 1e5]))
    if draw(st.integers(0, 3)) == 0:
        name, _ = draw(st.sampled_from(spec["molecules"]))
        mt = [m for m in spec["moltypes"] if m["name"] == name][0]
        ridx = draw(st.integers(0, len(mt["residues"]) - 1))
        opts["start"] = [f"{name}-{mt['residues'][ridx]['resname']}#{ridx + 1}"]
    spec["opts"] = opts
    interleaved = bool(spec.get("coords")) and bool(opts.get("build_res"))
    if draw(st.integers(0, 3)) == 0 or (interleaved and mixed):
        # a scripted pattern of placement steps that are rejected (as an overlap would be): rewinds and
        # restarts happen also in these dilute systems
        spec["fail_pattern"] = [draw(st.integers(0, 2)) == 0 for _ in range(draw(st.integers(1, 20)))]
        opts["nrewind"] = draw(st.integers(2, 3)) if mixed else draw(st.integers(1, 4))
        if draw(st.booleans()):
            # few attempts per round (-mi): a molecule whose attempts are used up is started over until it is built
            opts["maxiter"] = draw(st.sampled_from([0, 1, 2]))
            if draw(st.booleans()):
                spec["fail_pattern"] = [True] * draw(st.integers(3, 12)) + spec["fail_pattern"]
    if draw(st.integers(0, 3)) == 0:
        # [ molecules ] lines with the count 0 (a component switched off for this run), anywhere in the list
        for _ in range(draw(st.integers(1, 2))):
            name = draw(st.sampled_from([mt["name"] for mt in spec["moltypes"]]))
            spec["molecules"].insert(draw(st.integers(0, len(spec["molecules"]))), [name, 0])
        spec["zero_counts"] = True
    return spec


def strategy(tier):
    return _strategy()


def expected_box(spec):
    opts = spec["opts"]
    if spec.get("coords") and spec["coords"].get("cryst", True):
        return spec["coords"]["box"], "structure"
    if opts.get("box") is not None:
        return opts["box"], "option"
    edge = (gc.total_mass(spec) * 1.660541 / opts["density"]) ** (1.0 / 3.0)
    return [edge] * 3, "density"


def check_gro_listing(spec, res, clause="gro"):
    if res.gro_text is None:
        raise Violation(f"{clause}:no_output", "gen_coords returned without writing the output structure")
    if isinstance(res.gro, Exception):
        raise Violation(f"{clause}:unreadable", f"{res.gro}")
    want = gc.expanded_atoms(spec)
    got = res.gro["atoms"]
    if res.gro["n"] != len(want) or len(got) != len(want):
        raise Violation(f"{clause}:atom_count", f"{res.gro['n']} atoms listed, topology has {len(want)}")
    for i, (w, g) in enumerate(zip(want, got), start=1):
        # a .gro line holds five characters of the residue and of the atom name
        if (g["resid"], g["resname"], g["name"]) != (w[0], w[1][:5], w[2][:5]):
            raise Violation(f"{clause}:atom_identity", f"line {i}: {(g['resid'], g['resname'], g['name'])} expected {w[:3]}")
        if not all(math.isfinite(v) for v in g["xyz"]):
            raise Violation(f"{clause}:non_finite", f"line {i}: {g['xyz']}")
    if res.gro["extra"]:
        raise Violation(f"{clause}:trailing_lines", f"{res.gro['extra'][:2]}")


def check(spec, ctx):
    from polyply.src.random_walk import RandomWalk
    if spec.get("fill"):
        from . import c05
        spec = c05._fill(spec)
        ctx.label("more_than_5000_supplied")
    pattern = list(spec.get("fail_pattern", []))
    orig_update = RandomWalk.update_positions
    fails = [0]

    def scripted(self, vector_bundle, current_node, prev_node):
        if pattern and pattern.pop(0):
            fails[0] += 1
            return False
        return orig_update(self, vector_bundle, current_node, prev_node)

    if pattern:
        RandomWalk.update_positions = scripted
    try:
        res = gc.run_gen_coords(spec, ctx, timeout=60 if spec.get("fill") else 15)
    finally:
        RandomWalk.update_positions = orig_update
    if fails[0]:
        ctx.label("rejected_steps")
    if spec.get("vs_only"):
        ctx.label("residue_attached_by_virtual_site_only")
    if res.exc is not None:
        if isinstance(res.exc, (IOError, OSError)):
            raise Reject(str(res.exc)[:200])
        if gc.refused_outside_box(res.exc, spec):
            raise Reject("start structure with coordinates beyond its box")
        raise crash("gen_coords:crash", res.exc)
    check_gro_listing(spec, res)
    want_box, source = expected_box(spec)
    got_box = res.gro["box"]
    if len(got_box) < 3 or any(abs(g - w) > 1e-4 + 1e-5 * w for g, w in zip(got_box[:3], want_box)):
        raise Violation(f"box:{source}", f"box line {got_box}, expected {want_box} (from {source})")
    if len(got_box) > 3 and any(abs(v) > 1e-9 for v in got_box[3:]):
        raise Violation("box:triclinic_terms", f"{got_box}")
    ctx.label("box_from_" + source)
    if spec.get("res_names_everything"):
        ctx.label("res_names_every_residue")
    if spec.get("zero_counts"):
        ctx.label("molecules_lines_with_count_0")
    if spec.get("include_layout"):
        ctx.label("molecule_types_in_an_include" + ("_read_before_with_other_content" if spec.get("primed") else ""))
    if spec.get("coords") and spec["coords"].get("format") == "pdb":
        ctx.label("pdb_start_structure" + ("" if spec["coords"].get("cryst", True) else "_without_cell"))
    used = [n for n, _ in spec["molecules"]]
    if spec.get("coords"):
        ctx.label("coords_" + spec["coords"]["mode"] + ("_partial" if spec["coords"]["nres"] < spec["coords"]["total_res"] else "_full"))
        if spec["opts"].get("build_res"):
            ctx.label("coords_with_res")
    for key in ("grid", "start", "build_res"):
        if key in spec["opts"]:
            ctx.label("opt_" + key)
    multi_atom = any(len(r["atoms"]) > 1 for mt in spec["moltypes"] for r in mt["residues"])
    ctx.nontrivial = (len(set(used)) >= 2 or len(used) > len(set(used))) and multi_atom
