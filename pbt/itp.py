"""
Independent reader for GROMACS .itp / .gro text (does not use polyply or vermouth).

read_itp(text) -> list of moleculetypes, each
   {"name", "nrexcl", "atoms": [ {idx, type, resid, resname, name, cgrp, charge, mass} ],
    "inter": { section: [ {"atoms": (int,...) 1-based, "params": [str,...], "guard": None|("ifdef",X)|("ifndef",X)} ] },
    "header": [comment lines before the first section]}
"""

# number of leading atom columns per section
N_ATOMS = {
    "bonds": 2, "pairs": 2, "pairs_nb": 2, "constraints": 2, "angles": 3,
    "dihedrals": 4, "impropers": 4, "position_restraints": 1,
    "virtual_sites1": 2, "virtual_sites2": 3, "virtual_sites3": 4, "virtual_sites4": 5,
    "settles": 1, "distance_restraints": 2, "dihedral_restraints": 4,
    "orientation_restraints": 2, "angle_restraints": 4, "angle_restraints_z": 2,
}


def _strip(line):
    return line.split(";", 1)[0].strip()


def read_itp(text):
    mols = []
    cur = None
    section = None
    guard = None
    header = []
    for raw in text.splitlines():
        line = _strip(raw)
        if not line:
            if cur is None and raw.strip().startswith(";"):
                header.append(raw.strip())
            continue
        if line.startswith("#"):
            tokens = line.split()
            if tokens[0] in ("#ifdef", "#ifndef"):
                if guard is not None:
                    raise ValueError("nested conditional in written itp")
                guard = (tokens[0][1:], tokens[1])
            elif tokens[0] == "#endif":
                if guard is None:
                    raise ValueError("#endif without #if")
                guard = None
            elif tokens[0] == "#else":
                guard = ("ifndef" if guard[0] == "ifdef" else "ifdef", guard[1])
            elif tokens[0] in ("#define", "#include"):
                pass
            else:
                raise ValueError(f"unknown pragma {line}")
            continue
        if line.startswith("["):
            section = line.strip("[] \t")
            if section == "moleculetype":
                cur = {"name": None, "nrexcl": None, "atoms": [], "inter": {}, "header": header}
                header = []
                mols.append(cur)
            continue
        tokens = line.split()
        if section == "moleculetype":
            cur["name"] = tokens[0]
            cur["nrexcl"] = int(tokens[1])
        elif section == "atoms":
            atom = {"idx": int(tokens[0]), "type": tokens[1], "resid": int(tokens[2]),
                    "resname": tokens[3], "name": tokens[4], "cgrp": int(tokens[5]),
                    "charge": float(tokens[6]) if len(tokens) > 6 else None,
                    "mass": float(tokens[7]) if len(tokens) > 7 else None}
            cur["atoms"].append(atom)
        elif section == "exclusions":
            cur["inter"].setdefault(section, []).append(
                {"atoms": tuple(int(t) for t in tokens), "params": [], "guard": guard})
        elif section == "virtual_sitesn":
            cur["inter"].setdefault(section, []).append(
                {"atoms": (int(tokens[0]),) + tuple(int(t) for t in tokens[2:]),
                 "params": [tokens[1]], "guard": guard})
        elif section in N_ATOMS:
            n = N_ATOMS[section]
            cur["inter"].setdefault(section, []).append(
                {"atoms": tuple(int(t) for t in tokens[:n]), "params": tokens[n:], "guard": guard})
        else:
            raise ValueError(f"unknown section {section}")
    if guard is not None:
        raise ValueError("unterminated conditional")
    return mols


def canon_atoms(section, atoms):
    """Canonical atom tuple for semantic comparison of interactions."""
    atoms = tuple(atoms)
    if section in ("bonds", "pairs", "constraints", "exclusions", "pairs_nb"):
        if section == "exclusions" and len(atoms) > 2:
            return atoms
        return tuple(sorted(atoms))
    if section in ("angles", "dihedrals", "impropers"):
        return min(atoms, atoms[::-1])
    return atoms


def canon_param(p):
    """Parameters are compared as numbers where they are numbers (the writer prints
    floats it parsed, e.g. '45' -> '45.0'), otherwise as strings."""
    try:
        return round(float(p), 9)
    except (TypeError, ValueError):
        return str(p)


def inter_multiset(inter, with_guard=True):
    """dict section -> sorted list of (canonical atoms, params, guard)."""
    out = {}
    for section, items in inter.items():
        rows = []
        for it in items:
            key = (canon_atoms(section, it["atoms"]), tuple(canon_param(p) for p in it["params"]))
            if with_guard:
                key += (tuple(it["guard"]) if it.get("guard") else None,)
            rows.append(key)
        if rows:
            out[section] = sorted(rows, key=repr)
    return out


def read_gro(text):
    lines = text.splitlines()
    title = lines[0]
    n = int(lines[1].split()[0])
    atoms = []
    for line in lines[2:2 + n]:
        resid = int(line[0:5])
        resname = line[5:10].strip()
        name = line[10:15].strip()
        idx = int(line[15:20])
        rest = line[20:].split()
        xyz = tuple(float(v) for v in rest[:3])
        atoms.append({"resid": resid, "resname": resname, "name": name, "idx": idx, "xyz": xyz})
    box = tuple(float(v) for v in lines[2 + n].split())
    extra = [l for l in lines[3 + n:] if l.strip()]
    return {"title": title, "n": n, "atoms": atoms, "box": box, "extra": extra}
