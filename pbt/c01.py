"""C01 - every residue is a verbatim, re-indexed copy of its force-field block."""
from collections import Counter, defaultdict

import hypothesis.strategies as st

from . import gp, gpcheck, model as mdl
from .core import Violation
from .c02 import compare_interactions

PID = "C01"
LEVEL = "exploration"
RULE = ("Hypothesis-generated force fields (1-3 blocks of 1-5 atoms, .ff and polyply .itp syntax, all "
        "interaction sections of the generator, #ifdef metas, versions, multi-residue blocks referenced with "
        "from_itp, modifications) x residue graphs (linear/tree/ring, 1-8 residues, contiguous resids "
        "starting at 1,2,5,17, node keys plain/offset/permuted, input via -seq/.txt/.json), with and without "
        "links; oracle = reference model R1 (pbt/model.py): atoms table field by field, charge-group offset "
        "constant per instance, interaction multiset equal to block instances + brute-force link matches; "
        "non-trivial = >=2 residues and a block with >=2 atoms and >=1 interaction; distinct = spec hash")
ASSUMPTIONS = ["reference model pbt/model.py (calibrated against the repository tests' expectations)",
               "independent .itp reader pbt/itp.py",
               "IOError/OSError raised by gen_params counts as clean rejection of the input"]
RULE += (" Further flavours: molecules built from blocks of different nrexcl (every listed [ exclusions ] line must be there; generated ones on top are C14's matter), .itp blocks that use an atom name twice, links that name one of their residues only, links with [ info ]/[ warning ]/[ error ] messages, multi-term dihedrals repeating the parameters of a term, .txt sequence files over several lines.")
BUDGET = {"quick": (16, 220), "thorough": (16, 6000)}


@st.composite
def _strategy(draw):
    flavour = draw(st.sampled_from(["plain", "plain", "links", "links", "multires", "mods", "mods", "mixed_nrexcl"]))
    if flavour == "mixed_nrexcl":
        # blocks of different exclusion distance in one molecule: every block is still copied line by line, its
        # own [ exclusions ] included
        spec = draw(gp.case(with_links=True, link_bias=True, mixed_nrexcl=True, min_blocks=2, min_res=2,
                            name_modes=("block", "random", "random")))
    elif flavour == "plain":
        spec = draw(gp.case(with_links=False, allow_dangling=False, resname_mismatch=True))
    elif flavour == "links":
        spec = draw(gp.case(with_links=True, link_bias=True))
    elif flavour == "multires":
        spec = draw(gp.multires_case())
    else:
        spec = draw(gp.mods_case())
    spec["flavour"] = flavour
    return spec


def strategy(tier):
    return _strategy()


def check_atoms(written, model):
    want = model.atoms
    got = written["atoms"]
    if len(want) != len(got):
        raise Violation("atoms:count", f"{len(got)} atoms written, {len(want)} expected")
    offsets = {}
    for idx, (w, g) in enumerate(zip(want, got), start=1):
        allowed_types = {w["type"]}
        if idx in model.charge_override:
            allowed_types = {rep["atype"] for _, rep in model.charge_override[idx] if "atype" in rep} or allowed_types
        if g["type"] not in allowed_types:
            raise Violation("atoms:type", f"atom {idx}: {g['type']!r} not in {sorted(allowed_types)}")
        for field, gf in (("name", "name"), ("resid", "resid"), ("resname", "resname"),
                          ("mass", "mass")):
            if isinstance(w[field], float):
                if g[gf] is None or abs(w[field] - g[gf]) > 1e-9:
                    raise Violation(f"atoms:{field}", f"atom {idx}: {g[gf]!r} != {w[field]!r}")
            elif w[field] != g[gf]:
                raise Violation(f"atoms:{field}", f"atom {idx}: {g[gf]!r} != {w[field]!r}")
        allowed = {w["charge"]}
        if idx in model.charge_override:
            allowed = {rep["charge"] for _, rep in model.charge_override[idx] if "charge" in rep} or allowed
        if g["charge"] is None or all(abs(g["charge"] - a) > 1e-9 for a in allowed):
            raise Violation("atoms:charge", f"atom {idx}: {g['charge']!r} not in {sorted(allowed)}")
        inst = w.get("inst", w["res"])
        off = g["cgrp"] - w["cgrp_block"]
        if inst in offsets and offsets[inst] != off:
            raise Violation("atoms:charge_group", f"atom {idx}: offset {off} differs from {offsets[inst]} "
                                                  f"within one block instance")
        offsets.setdefault(inst, off)
    first_inst = want[0].get("inst", want[0]["res"]) if want else None
    if want and offsets[first_inst] != 0:
        raise Violation("atoms:charge_group", f"first instance shifted by {offsets[first_inst]}")


def check(spec, ctx):
    from .core import Reject
    flavour = spec.get("flavour", "links")
    model = mdl.expected(spec, with_links=True)
    if model.invalid:
        raise Reject(model.invalid)
    run, written = gpcheck.execute(spec, ctx, clause="mapping")
    ctx.label("flavour_" + flavour)
    if model.undetermined:
        ctx.label("order_dependent_not_asserted")
        return
    check_atoms(written, model)
    compare_interactions(spec, written, model, clause_prefix="interactions")
    if flavour in ("plain", "multires") and not spec["links"] and not mdl.all_links(spec):
        uniform = len({b["nrexcl"] for b in spec["blocks"] if b["name"] in
                       {r["block"]["name"] for r in model.residues}}) == 1
        if uniform and written["nrexcl"] != model.residues[0]["block"]["nrexcl"]:
            raise Violation("moleculetype:nrexcl", f"{written['nrexcl']}")
    # classification
    nres = len(model.residues)
    start = model.residues[0]["resid"]
    if start != 1:
        ctx.label("resid_offset")
    kind = spec["graph"].get("kind")
    if kind and kind != "linear":
        ctx.label("shape_" + kind)
    keys = [n["id"] for n in sorted(spec["graph"]["nodes"], key=lambda n: n["resid"])]
    if keys != sorted(keys):
        ctx.label("permuted_keys")
    if model.matches:
        ctx.label("links_applied")
    if getattr(model, "mods_applied", 0):
        ctx.label("mods_applied")
    rich = any(r["natoms"] >= 2 and any(True for it in r["block"]["inter"]) for r in model.residues)
    ctx.nontrivial = nres >= 2 and rich
