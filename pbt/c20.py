"""C20 - outputs appear only after success and never clobber existing files."""
import hashlib
import importlib
import json
import os
import shutil
import tempfile
from pathlib import Path

import numpy as np

from . import gp, gc
from .core import Violation, Reject, crash, Inconclusive

PID = "C20"
LEVEL = "fault_enumeration"
RULE = ("an exception is injected at every stage boundary of the three programs (gen_params: library load, "
        "sequence read, dsDNA completion, mapping, links, modifications (construct/run), missing-edge scan, citation "
        "formatting, .itp writer before / after k lines / after, flush; gen_coords: topology read, preprocess, "
        "connectivity check, split, coordinate load, build-file load, start lookup, templates, ligand annotation, "
        "cycles, system build, ligand split, backmap, conversion, .gro writer before / after k lines / after, flush; "
        "gen_seq: library load, macro parsing, graph assembly, connects, termini, labels, node-link conversion), "
        "before and after the stage, for several exception types, with the output path absent / present with "
        "sentinel content / present together with older '#name.k#' backups, on 2 inputs per program; plus "
        "naturally failing inputs and fault-free runs; a third of the cases, and every fault-free one a second time, with the directory for temporary files on another device (/dev/shm) than the output. The output directory is hashed before and after. "
        "After every failure that precedes the writing stage a second, successful gen_params run with another "
        "output path follows in the same process and the failed run's directory is hashed again. "
        "Enumerated completely per tier (quick: one exception type for 'after' positions). non-trivial = a fault "
        "strictly inside the pipeline with a pre-existing file; distinct = (program, input, stage, position, "
        "exception, prior state)")
ASSUMPTIONS = ["temporary files of the deferred writer live in the temp directory, not in the output directory "
               "(the harness points TMPDIR elsewhere and hashes only the output directory)",
               "the deferred-writer singleton is cleared before each case; a later call in the same process is "
               "outside this property", "gen_seq: the json dump itself is the writing stage"]
RULE += (" gen_params runs whose applied link carries an [ info ]/[ warning ]/[ error ] message must write all the same; a failure while the file is composed is followed by a successful gen_seq run in the same process, which must leave the failed run's directory unchanged.")
BUDGET = {"quick": (16, 0), "thorough": (16, 0)}
EXHAUSTIVE = True

EXC = {"RuntimeError": RuntimeError, "OSError": OSError, "KeyError": KeyError}

GEN_PARAMS_STAGES = [
    ("load_library", "polyply.src.gen_itp", "load_ff_library"),
    ("read_sequence", "polyply.src.gen_itp", "MetaMolecule.from_sequence_file"),
    ("dsdna", "polyply.src.gen_itp", "complement_dsDNA"),
    ("mapping", "polyply.src.gen_itp", "MapToMolecule.run_molecule"),
    ("links", "polyply.src.gen_itp", "ApplyLinks.run_molecule"),
    ("modifications_init", "polyply.src.gen_itp", "ApplyModifications.__init__"),
    ("modifications", "polyply.src.gen_itp", "ApplyModifications.run_molecule"),
    ("missing_edges", "polyply.src.gen_itp", "find_missing_edges"),
    # stages one level deeper: they fail while the result of a lazily evaluated stage is consumed
    ("missing_edges_inner", "polyply.src.graph_utils", "find_connecting_edges"),
    ("link_matching_inner", "polyply.src.apply_links", "match_link_and_residue_atoms"),
    ("citation", "polyply.src.gen_itp", "citation_formatter"),
    ("write_itp", "vermouth.gmx.itp", "write_molecule_itp"),
    ("flush", "polyply.src.gen_itp", "DeferredFileWriter.write"),
]
GEN_COORDS_STAGES = [
    ("read_topology", "polyply.src.gen_coords", "Topology.from_gmx_topfile"),
    ("preprocess", "polyply.src.gen_coords", "Topology.preprocess"),
    ("connectivity", "polyply.src.gen_coords", "_check_molecules"),
    ("load_coordinates", "polyply.src.gen_coords", "Topology.add_positions_from_file"),
    ("load_build_files", "polyply.src.gen_coords", "load_build_files"),
    ("start_nodes", "polyply.src.gen_coords", "find_starting_node_from_spec"),
    ("templates", "polyply.src.gen_coords", "GenerateTemplates.run_system"),
    ("ligands", "polyply.src.gen_coords", "AnnotateLigands.run_system"),
    ("cycles", "polyply.src.gen_coords", "_initialize_cylces"),
    ("build_system", "polyply.src.gen_coords", "BuildSystem.run_system"),
    ("split_ligands", "polyply.src.gen_coords", "AnnotateLigands.split_ligands"),
    ("backmap", "polyply.src.gen_coords", "Backmap.run_system"),
    ("backmap_inner", "polyply.src.backmap", "orient_template"),
    ("placement_inner", "polyply.src.nonbond_engine", "NonBondEngine.update_positions_in_molecules"),
    ("templates_inner", "polyply.src.generate_templates", "compute_volume"),
    ("convert", "polyply.src.gen_coords", "Topology.convert_to_vermouth_system"),
    ("write_gro", "vermouth.gmx.gro", "write_gro"),
    ("flush", "polyply.src.gen_coords", "DeferredFileWriter.write"),
]
GEN_SEQ_STAGES = [
    ("load_library", "polyply.src.gen_seq", "load_ff_library"),
    ("macro_string", "polyply.src.gen_seq", "MacroString.__init__"),
    ("macro_graph", "polyply.src.gen_seq", "MacroString.gen_graph"),
    ("assemble", "polyply.src.gen_seq", "generate_seq_graph"),
    ("connects", "polyply.src.gen_seq", "_add_edges"),
    ("termini", "polyply.src.gen_seq", "_apply_termini_modifications"),
    ("labels", "polyply.src.gen_seq", "_tag_nodes"),
    ("labels_inner", "polyply.src.gen_seq", "_random_replace_nodes_attribute"),
    ("node_link", "polyply.src.gen_seq", "json_graph.node_link_data"),
]
STAGES = {"gen_params": GEN_PARAMS_STAGES, "gen_coords": GEN_COORDS_STAGES, "gen_seq": GEN_SEQ_STAGES}
PRIOR = ["absent", "present", "present_with_backups", "empty"]      # empty: a zero-length file is at the path


def enumerate_cases(tier, seed):
    cases = []
    excs = list(EXC)
    for program, stages in STAGES.items():
        for inp in (0, 1):
            for prior in PRIOR:
                cases.append({"program": program, "input": inp, "fault": None, "prior": prior, "rng": seed})
                for (stage, _m, _a) in stages:
                    for pos in ("before", "after", "lazy"):
                        if pos == "lazy" and stage not in ("missing_edges",):
                            continue
                        use = excs if (tier == "thorough" or pos == "before") else excs[:1]
                        if tier == "quick" and pos == "before":
                            use = excs[:2]
                        for exc in use:
                            cases.append({"program": program, "input": inp, "prior": prior, "rng": seed,
                                          "fault": {"stage": stage, "pos": pos, "exc": exc}})
                if program in ("gen_params", "gen_coords"):
                    for k in (1, 4, 9):
                        cases.append({"program": program, "input": inp, "prior": prior, "rng": seed,
                                      "fault": {"stage": "write_itp" if program == "gen_params" else "write_gro",
                                                "pos": f"mid{k}", "exc": "RuntimeError"}})
                cases.append({"program": program, "input": inp, "prior": prior, "rng": seed,
                              "fault": {"stage": "natural", "pos": "input", "exc": "natural"}})
                if program == "gen_coords" and inp == 1 and prior == "present":
                    cases.append({"program": program, "input": inp, "fault": None, "prior": prior, "rng": seed,
                                  "inplace": True})
                    for pos in ("mid1", "mid4"):
                        cases.append({"program": program, "input": inp, "prior": prior, "rng": seed, "inplace": True,
                                      "fault": {"stage": "write_gro", "pos": pos, "exc": "RuntimeError"}})
                for odd in ("dotdot", "symlink", "relative") + (("filelink",) if prior == "present" and program != "gen_seq" else ()) \
                        + (("missing_dir",) if prior == "absent" and program != "gen_seq" else ()):
                    cases.append({"program": program, "input": inp, "fault": None, "prior": prior, "rng": seed,
                                  "odd_path": odd})
                # fault-free runs whose output name has another ending, or none
                for suffix in (".v2", "", ".top"):
                    cases.append({"program": program, "input": inp, "fault": None, "prior": prior, "rng": seed,
                                  "suffix": suffix})
    # the previous output is what this very run produces, complete or cut off after some lines (a re-run of the same
    # command): the new file is written and the old one backed up all the same
    for inp in (0, 1):
        for keep in ("all", "half", "two_lines"):
            cases.append({"program": "gen_params", "input": inp, "fault": None, "prior": "present", "rng": seed,
                          "previous_result": keep})
    # the force field attaches a message of some level to the link that is applied: the run succeeds and writes
    for inp in (0, 1):
        for prior in PRIOR:
            for level in ("info", "warning", "error"):
                cases.append({"program": "gen_params", "input": inp, "fault": None, "prior": prior, "rng": seed,
                              "log": level})
    # every case whose listing index is a multiple of 3, and every fault-free case a second time, runs with the
    # directory for temporary files on another file system than the output
    extra = []
    for i, c in enumerate(cases):
        if i % 3 == 0:
            c["other_dev"] = True
        elif c["fault"] is None:
            extra.append(dict(c, other_dev=True))
    return cases + extra


# ----------------------------------------------------------------------------
def gen_params_input(which, natural=False, log=None):
    def atom(n, t, rn):
        return {"name": n, "type": t, "charge": 0.0, "mass": 45.0, "cgrp": 1, "resid": 1, "resname": rn}
    blocks = [{"name": "RA", "nrexcl": 1, "syntax": "ff" if which == 0 else "itp",
               "atoms": [atom("BB", "T1", "RA"), atom("SC1", "T2", "RA")],
               "inter": [{"sec": "bonds", "atoms": [0, 1], "params": ["1", "0.37", "7000.0"], "meta": {}}]}]
    links = [{"resname": "RA", "atoms": [{"key": "SC1", "attrs": {}}, {"key": "+BB", "attrs": {}}],
              "inter": [{"sec": "bonds", "atoms": ["SC1", "+BB"], "params": ["1", "0.4", "5000.0"], "meta": {}}],
              "edges": [], "non_edges": [], "patterns": [],
              "log": [log, "parameters of this link are a rough guess"] if log else None}]
    files = [{"kind": "ff", "blocks": [0] if which == 0 else [], "links": [0], "mods": []}]
    if which == 1:
        files.append({"kind": "itp", "blocks": [0], "links": [], "mods": []})
    n = 3 if which == 0 else 4
    nodes = [{"id": i, "resid": i + 1, "resname": "RA" if not (natural and i == 1) else "UNKNOWN", "attrs": {}} for i in range(n)]
    graph = {"nodes": nodes, "edges": [[i, i + 1, {}] for i in range(n - 1)], "kind": "linear", "node_order": list(range(n))}
    return {"rng": 1, "name": "mol", "blocks": blocks, "links": links, "mods": [], "files": files, "graph": graph,
            "route": "json", "mods_cli": []}


def gen_coords_input(which, natural=False):
    res_a = {"resname": "RA", "atoms": [{"name": "a1", "type": "TA", "mass": 36.0}, {"name": "a2", "type": "TB", "mass": 36.0}],
             "bonds": [[0, 1, 0.3]], "vs": None}
    res_b = {"resname": "RB", "atoms": [{"name": "b1", "type": "TA", "mass": 36.0}], "bonds": [], "vs": None}
    mt = {"name": "MA", "residues": [res_a, res_b, res_a] if which == 0 else [res_b, res_a], "shape": "linear",
          "res_edges": [[0, 1], [1, 2]] if which == 0 else [[0, 1]]}
    if natural:
        mt["res_edges"] = mt["res_edges"][:-1]       # disconnected molecule: refused
    spec = {"rng": 3, "comb": 2, "atomtypes": [{"name": "TA", "mass": 36.0, "sigma": 0.43, "eps": 2.0},
                                               {"name": "TB", "mass": 36.0, "sigma": 0.3, "eps": 2.0}],
            "moltypes": [mt], "molecules": [["MA", 2 if which == 0 else 1]], "opts": {"box": [6.0, 6.0, 6.0]},
            "coords": None, "build": None}
    if which == 1:
        spec["build"] = ["[ molecule ]", "MA 0 1", "[ sphere ]", "RA 1 3 in 3.0 3.0 3.0 2.5"]
        # the first residue is supplied: the coordinate-loading stage is on the path
        spec["coords"] = {"mode": "c", "atoms": [[1, "RB", "b1", [3.0, 3.0, 3.0]]], "box": [6.0, 6.0, 6.0]}
    return spec


def gen_seq_input(which, natural=False):
    if which == 0:
        return {"macro_strings": ["A:3:1:PEO-1.0", "B:2:2:PS-1.0"], "seq": ["A", "B", "A"],
                "connects": ["0:1:2-0", "1:2:1-0"] if not natural else ["0:1:2-77"], "modifications": ["0:OHT"],
                "tags": ["1:chiral:R-1.0"]}
    return {"macro_strings": ["A:2:2:PEO-1.0"], "seq": ["A", "A"] if not natural else ["A", "Q"],
            "connects": ["0:1:0-0"], "modifications": [], "tags": []}


# ----------------------------------------------------------------------------
def snapshot(directory):
    snap = {}
    for path in sorted(Path(directory).rglob("*")):
        if path.is_file():
            data = path.read_bytes()
            snap[str(path.relative_to(directory))] = (len(data), hashlib.sha256(data).hexdigest())
    return snap


class _FailingFile:
    def __init__(self, handle, nwrites, exc, state):
        self._h, self._n, self._exc, self._state = handle, nwrites, exc, state

    def write(self, text):
        if self._n <= 0:
            self._state["fired"] = True
            raise self._exc("injected fault in the middle of writing")
        self._n -= 1
        return self._h.write(text)

    def __getattr__(self, name):
        return getattr(self._h, name)

    def __enter__(self):
        self._h.__enter__()
        return self

    def __exit__(self, *args):
        return self._h.__exit__(*args)


def resolve(module_name, attr):
    module = importlib.import_module(module_name)
    parts = attr.split(".")
    owner = module
    for part in parts[:-1]:
        owner = getattr(owner, part)
    return owner, parts[-1]


def install_fault(program, fault, state):
    """returns an undo function"""
    stage, pos, exc_name = fault["stage"], fault["pos"], fault["exc"]
    if stage == "natural":
        return lambda: None
    exc = EXC[exc_name]
    entry = [s for s in STAGES[program] if s[0] == stage][0]
    try:
        owner, name = resolve(entry[1], entry[2])
        getattr(owner, name)
    except (ImportError, AttributeError):
        # the stage function does not exist (any more) under this name: nothing to inject
        state["unresolved"] = True
        return lambda: None
    orig = owner.__dict__[name] if isinstance(owner, type) and name in owner.__dict__ else getattr(owner, name)
    is_static = isinstance(orig, (staticmethod, classmethod))
    func = orig.__func__ if is_static else orig

    if pos.startswith("mid"):
        k = int(pos[3:])
        if stage == "write_itp":
            def wrapper(molecule, outfile, *a, **kw):
                return func(molecule, _FailingFile(outfile, k, exc, state), *a, **kw)
            setattr(owner, name, wrapper)
            return lambda: setattr(owner, name, orig)
        import vermouth.gmx.gro as gro
        orig_open = gro.deferred_open

        def failing_open(*a, **kw):
            return _FailingFile(orig_open(*a, **kw), k, exc, state)
        gro.deferred_open = failing_open
        return lambda: setattr(gro, "deferred_open", orig_open)

    def wrapper(*a, **kw):
        state["reached"] = True
        if pos == "before":
            raise exc(f"injected fault before {stage}")
        if pos == "lazy":
            def failing_iterator():
                raise exc(f"injected fault while the result of {stage} is consumed")
                yield None
            return failing_iterator()
        out = func(*a, **kw)
        raise exc(f"injected fault after {stage}")

    if isinstance(orig, classmethod):
        def cwrapper(cls, *a, **kw):
            state["reached"] = True
            if pos == "before":
                raise exc(f"injected fault before {stage}")
            func(cls, *a, **kw)
            raise exc(f"injected fault after {stage}")
        setattr(owner, name, classmethod(cwrapper))
    elif isinstance(orig, staticmethod):
        setattr(owner, name, staticmethod(wrapper))
    else:
        setattr(owner, name, wrapper)
    return lambda: setattr(owner, name, orig)


CWD0 = os.getcwd()


def check(spec, ctx):
    # in part of the cases the directory for temporary files lies on another file system than the output
    # (a tmpfs next to a disk): moving a finished temporary file into place is then a copy, not a rename
    shm = "/dev/shm"
    other = None
    if (spec.get("other_dev") and os.path.isdir(shm) and os.access(shm, os.W_OK)
            and os.stat(shm).st_dev != os.stat(ctx.dir).st_dev):
        other = tempfile.mkdtemp(prefix="polyply-verif-", dir=shm)
        ctx.label("temp_dir_on_other_device")
    try:
        if spec.get("previous_result"):
            pre = type("Ctx", (), {"dir": ctx.dir / "pre", "label": ctx.label, "nontrivial": False})()
            pre.dir.mkdir()
            _check(dict(spec, prior="absent", previous_result=None), pre, None)
            lines = (pre.dir / "out" / "result.itp").read_text().splitlines(keepends=True)
            keep = {"all": len(lines), "half": max(1, len(lines) // 2), "two_lines": 2}[spec["previous_result"]]
            spec = dict(spec, _sentinel="".join(lines[:keep]))
            ctx.label("previous_output_is_this_run_s_result_" + spec["previous_result"])
        return _check(spec, ctx, other)
    finally:
        if other:
            shutil.rmtree(other, ignore_errors=True)


def _check(spec, ctx, other_tmp):
    program, fault, prior = spec["program"], spec["fault"], spec["prior"]
    natural = bool(fault) and fault["stage"] == "natural"
    outdir = ctx.dir / "out"
    indir = ctx.dir / "in"
    tmpdir = ctx.dir / "tmp"
    for d in (outdir, indir, tmpdir):
        d.mkdir()
    if other_tmp:
        tmpdir = Path(other_tmp)
    tempfile.tempdir = str(tmpdir)
    suffix = {"gen_params": ".itp", "gen_coords": ".gro", "gen_seq": ".json"}[program]
    if spec.get("suffix") is not None:
        suffix = spec["suffix"]            # the output goes to the path it is given, whatever its ending
    target = outdir / f"result{suffix}"
    sentinel = b"; sentinel content of an older run\n[ nothing ]\n"
    if spec.get("inplace"):
        # gen_coords refining a structure in place: -c and -o name the same file
        ispec = gen_coords_input(1)
        gc.write_gro(target, [tuple(a) for a in ispec["coords"]["atoms"]], ispec["coords"]["box"])
        sentinel = target.read_bytes()
    elif prior != "absent":
        if spec.get("_sentinel") is not None:
            sentinel = spec["_sentinel"].encode()
        if prior == "empty":
            sentinel = b""
        target.write_bytes(sentinel)
    if prior == "present_with_backups":
        (outdir / f"#result{suffix}.1#").write_bytes(b"backup one\n")
        (outdir / f"#result{suffix}.2#").write_bytes(b"backup two\n")
    target_arg = target
    if spec.get("odd_path"):
        # the same output file named through a detour ("sub/../result.itp") or through a symbolic link to the directory
        (outdir / "sub").mkdir()
        if spec["odd_path"] == "dotdot":
            target_arg = outdir / "sub" / ".." / target.name
        elif spec["odd_path"] == "missing_dir":
            # the directory of the output path does not exist: the run cannot succeed, and must say so
            target_arg = outdir / "nodir" / target.name
        elif spec["odd_path"] == "filelink":
            # the previous output is itself a symbolic link to a file kept elsewhere: the link is what gets
            # the backup name, the file it points to is left alone
            shared = ctx.dir / "shared"
            shared.mkdir()
            (shared / "ref.dat").write_bytes(sentinel)
            target.unlink()
            target.symlink_to(Path("..") / "shared" / "ref.dat")
        elif spec["odd_path"] == "relative":
            # the output is named relative to the working directory (the inputs live elsewhere)
            os.chdir(outdir)
            target_arg = Path(target.name)
        else:
            (ctx.dir / "outlink").symlink_to(outdir, target_is_directory=True)
            target_arg = ctx.dir / "outlink" / target.name
    cwd0 = CWD0
    before = snapshot(outdir)
    state = {"reached": False}
    undo = install_fault(program, fault, state) if fault else (lambda: None)
    error = None
    try:
        if program == "gen_params":
            from polyply.src.gen_itp import gen_params
            gspec = gen_params_input(spec["input"], natural, log=spec.get("log"))
            ictx = type("C", (), {"dir": indir})()
            kwargs = gp.write_inputs(gspec, indir)
            if spec["input"] == 1:
                kwargs["dsdna"] = False
            gen_params(outpath=target_arg, **kwargs)
        elif program == "gen_coords":
            import polyply.src.gen_coords as gcm
            cspec = gen_coords_input(spec["input"], natural)
            top = indir / "system.top"
            top.write_text(gc.render_top(cspec))
            kwargs = {"toppath": top, "outpath": target_arg, "name": "test", "box": np.array(cspec["opts"]["box"])}
            if cspec["build"]:
                (indir / "b.bld").write_text("\n".join(cspec["build"]) + "\n")
                kwargs["build"] = [indir / "b.bld"]
            if spec.get("inplace"):
                kwargs["coordpath"] = target
            elif cspec.get("coords"):
                gc.write_gro(indir / "in.gro", [tuple(a) for a in cspec["coords"]["atoms"]], cspec["coords"]["box"])
                kwargs["coordpath"] = indir / "in.gro"
            import signal

            def handler(signum, frame):
                raise gc._Timeout()
            old = signal.signal(signal.SIGALRM, handler)
            signal.setitimer(signal.ITIMER_REAL, 40, 1.0)
            try:
                gcm.gen_coords(**kwargs)
            except gc._Timeout:
                raise Inconclusive("gen_coords timed out")
            finally:
                signal.setitimer(signal.ITIMER_REAL, 0)
                signal.signal(signal.SIGALRM, old)
        else:
            from polyply.src.gen_seq import gen_seq
            sspec = gen_seq_input(spec["input"], natural)
            gen_seq(name="seq", outpath=target_arg, seq=sspec["seq"], inpath=[], macro_strings=sspec["macro_strings"],
                    from_file=None, connects=sspec["connects"], modifications=sspec["modifications"], tags=sspec["tags"])
    except Inconclusive:
        raise
    except BaseException as err:      # injected and natural failures
        if isinstance(err, (KeyboardInterrupt, SystemExit)):
            raise
        error = err
    finally:
        undo()
        os.chdir(cwd0)
    after = snapshot(outdir)
    if spec.get("odd_path") == "missing_dir":
        if error is None and not (outdir / "nodir" / target.name).exists():
            raise Violation(f"{program}:success_without_output", "the run returned normally although its output could not "
                                                                 "be put in place (the directory does not exist)")
        if error is not None and not isinstance(error, OSError):
            raise crash(f"{program}:unexpected_failure", error)
        if error is not None and after != before:
            raise Violation(f"{program}:output_changed_on_failure", f"directory changed: {sorted(set(after.items()) ^ set(before.items()))[:3]}")
        ctx.label("output_directory_missing")
        ctx.nontrivial = True
        return
    if spec.get("odd_path") == "filelink":
        if snapshot(ctx.dir / "shared") != {"ref.dat": (len(sentinel), hashlib.sha256(sentinel).hexdigest())}:
            raise Violation(f"{program}:file_behind_link_changed", f"the directory of the file the old output pointed to now "
                                                                   f"holds {sorted(snapshot(ctx.dir / 'shared'))}")
    label = "no_fault" if not fault else f"{program}:{fault['stage']}:{fault['pos']}"
    if fault and not natural and state.get("unresolved"):
        if error is not None:
            raise crash(f"{program}:unexpected_failure", error)
        ctx.label("stage_unresolved")
        fault = None
    if fault and not natural and not (state["reached"] or state.get("fired")):
        # the stage is not on the path of this input (e.g. dsDNA completion, ligand split): nothing injected
        if error is not None:
            raise crash(f"{program}:unexpected_failure", error)
        ctx.label("stage_not_on_path")
        fault = None
    if fault:
        if error is None:
            if natural:
                raise Violation(f"{program}:natural_failure_accepted", "the invalid input was processed without an error")
            raise Violation(f"{program}:fault_swallowed", f"the injected exception at {label} did not propagate")
        flushed = fault["stage"] == "flush" and fault["pos"] == "after"
        if flushed:
            verify_success(program, target, before, after, prior, sentinel, suffix, outdir)
        elif after != before:
            changed = sorted(set(after.items()) ^ set(before.items()))
            raise Violation(f"{program}:output_changed_on_failure",
                            f"failure at {label} (prior state {prior}): directory changed: {changed[:3]}")
        writing = (program == "gen_params" and fault["stage"] in ("citation", "write_itp", "flush")) or \
                  (program == "gen_coords" and (fault["stage"] == "flush" or
                                                (fault["stage"] == "write_gro" and fault["pos"] != "before")))
        if program != "gen_seq" and not flushed and not writing:
            # the failure came before the writing stage: a later, successful run in the same process (another
            # output path) must not bring the failed run's output into being either
            from polyply.src.gen_itp import gen_params
            follow_in, follow_out = ctx.dir / "follow_in", ctx.dir / "follow_out"
            follow_in.mkdir()
            follow_out.mkdir()
            fkwargs = gp.write_inputs(gen_params_input(0), follow_in)
            try:
                gen_params(outpath=follow_out / "later.itp", **fkwargs)
            except Exception as err:
                raise crash("follow_up:crash", err)
            later = snapshot(outdir)
            if later != before:
                changed = sorted(set(later.items()) ^ set(before.items()))
                raise Violation(f"{program}:output_appears_after_later_run",
                                f"failure at {label} (prior state {prior}); after a later successful run with another "
                                f"output path the directory of the failed run changed: {changed[:3]}")
            ctx.label("follow_up_run")
        elif program != "gen_seq" and not flushed and writing:
            # the failure came while the file was being composed: a later, successful gen_seq run in the same process
            # (its own output path) must not put the unfinished file of the failed run in place
            from polyply.src.gen_seq import gen_seq
            follow_out = ctx.dir / "follow_out"
            follow_out.mkdir()
            sspec = gen_seq_input(1)
            try:
                gen_seq(name="seq", outpath=follow_out / "later.json", seq=sspec["seq"], inpath=[],
                        macro_strings=sspec["macro_strings"], from_file=None, connects=sspec["connects"],
                        modifications=sspec["modifications"], tags=sspec["tags"])
            except Exception as err:
                raise crash("follow_up_gen_seq:crash", err)
            later = snapshot(outdir)
            if later != after:
                changed = sorted(set(later.items()) ^ set(after.items()))
                raise Violation(f"{program}:output_appears_after_later_gen_seq",
                                f"failure at {label} (prior state {prior}); after a later successful gen_seq run with "
                                f"another output path the directory of the failed run changed: {changed[:3]}")
            ctx.label("follow_up_gen_seq_run")
        ctx.label(f"fault_{program}")
        if natural:
            ctx.label("natural_failure")
        ctx.nontrivial = prior != "absent" and not natural
        return
    if error is not None:
        raise crash(f"{program}:unexpected_failure", error)
    if program == "gen_seq":
        if not target.exists():
            raise Violation("gen_seq:no_output", "no file")
        json.loads(target.read_text())
    else:
        verify_success(program, target, before, after, prior, sentinel, suffix, outdir)
    ctx.label(f"success_{program}_{prior}")
    if spec.get("log"):
        ctx.label("force_field_message_" + spec["log"])
    ctx.nontrivial = prior != "absent"


def verify_success(program, target, before, after, prior, sentinel, suffix, outdir):
    from .itp import read_itp, read_gro
    if not target.exists():
        raise Violation(f"{program}:no_output_after_success", "the output file is missing")
    text = target.read_text()
    try:
        if program == "gen_params":
            mols = read_itp(text)
            if len(mols) != 1 or not mols[0]["atoms"] or "bonds" not in mols[0]["inter"]:
                raise ValueError("incomplete itp")
        else:
            gro = read_gro(text)
            if gro["n"] != len(gro["atoms"]) or len(gro["box"]) < 3:
                raise ValueError("incomplete gro")
    except Exception as err:
        raise Violation(f"{program}:incomplete_output", f"{err}")
    name = f"result{suffix}"
    if prior == "absent":
        extra = set(after) - {name}
        if extra:
            raise Violation(f"{program}:stray_files", f"{sorted(extra)}")
        return
    k = 1 if prior in ("present", "empty") else 3
    backup = f"#{name}.{k}#"
    if backup not in after:
        raise Violation(f"{program}:previous_file_not_backed_up", f"expected {backup}; directory holds {sorted(after)}")
    if (outdir / backup).read_bytes() != sentinel:
        raise Violation(f"{program}:backup_content_changed", f"{backup} differs from the previous file")
    for old, meta in before.items():
        if old != name and after.get(old) != meta:
            raise Violation(f"{program}:older_backup_touched", f"{old}")
    extra = set(after) - set(before) - {backup}
    if extra:
        raise Violation(f"{program}:stray_files", f"{sorted(extra)}")
