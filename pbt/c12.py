"""C12 - sequence inputs produce exactly the specified residue graph."""
import json
from pathlib import Path

import hypothesis.strategies as st

from .core import Violation, Reject, crash

PID = "C12"
LEVEL = "exploration"
RULE = ("generated sequence inputs of six kinds - '-seq NAME:n' lists, .txt (single-space separated, names also with lower-case letters, random "
        "line breaks), .fasta and .ig (DNA/RNA/protein alphabets, random line lengths, comment lines, "
        "terminator 1/2, trailing second sequence), node-link .json ('edges' or 'links' key, with/without "
        "resids, shuffled records) and gen_seq specifications (1-4 macros of 1-4 levels x branching 1-3, "
        "residue probability 1, connects, -modf_ter, -label, from_file macros) - compared with an independent "
        "sequence model R7 (names, resids 1..n, path / balanced-tree / connect edges, circular edge label); "
        "gen_seq JSON is read back through MetaMolecule.from_sequence_file. non-trivial = >=3 residues and "
        "(a line break inside the sequence, or >=2 macros with a connect, or a non-path graph); distinct = spec hash")
ASSUMPTIONS = ["connect records and sequence ids are 0-based (the repository's tests fix this reading; the CLI "
               "help text shows a 1-based looking example)",
               "DNA/RNA terminal naming is asserted for n>=2 (for n=1 the statement does not say which suffix applies)",
               ".ig title lines do not end in the terminator characters 1/2"]
BUDGET = {"quick": (16, 400), "thorough": (16, 12000)}

DNA = {"A": "DA", "C": "DC", "G": "DG", "T": "DT"}
RNA = {"A": "A", "C": "C", "G": "G", "T": "U"}
AA = {"G": "GLY", "A": "ALA", "V": "VAL", "C": "CYS", "P": "PRO", "L": "LEU", "I": "ILE", "M": "MET",
      "W": "TRP", "F": "PHE", "S": "SER", "T": "THR", "Y": "TYR", "N": "ASN", "Q": "GLN", "K": "LYS",
      "R": "ARG", "H": "HIS", "D": "ASP", "E": "GLU", "O": "HYP"}
NAMES = ["PEO", "PS", "P3HT", "A", "GLY", "DA5", "N1", "XYZ"]


def _break(draw, letters, sep=""):
    """split a sequence of tokens into lines of random length"""
    lines = []
    i = 0
    while i < len(letters):
        k = draw(st.integers(1, max(1, min(len(letters) - i, 12))))
        lines.append(sep.join(letters[i:i + k]))
        i += k
    return lines


@st.composite
def _seq(draw):
    parts = [[draw(st.sampled_from(NAMES)), draw(st.integers(1, 6))] for _ in range(draw(st.integers(1, 5)))]
    return {"kind": "seq", "parts": parts}


@st.composite
def _txt(draw):
    # residue names are taken as spelled: some files hold names with lower-case letters
    pool = NAMES + ["Na", "cap", "Glc"] if draw(st.integers(0, 2)) == 0 else NAMES
    names = [draw(st.sampled_from(pool)) for _ in range(draw(st.integers(1, 30)))]
    lines = _break(draw, names, " ")
    if draw(st.integers(0, 2)) == 0:
        # blanks at the ends of lines (a space before the line break, an indented continuation line)
        lines = [(" " if draw(st.integers(0, 3)) == 0 else "") + ln + (" " if draw(st.integers(0, 2)) == 0 else "") for ln in lines]
    return {"kind": "txt", "names": names, "lines": lines, "trailing_newline": draw(st.booleans())}


@st.composite
def _plain(draw, kind):
    alphabet = draw(st.sampled_from(["DNA", "RNA", "PROTEIN"]))
    table = {"DNA": DNA, "RNA": RNA, "PROTEIN": AA}[alphabet]
    n = draw(st.sampled_from([1, 2, 3])) if draw(st.integers(0, 5)) == 0 else draw(st.integers(1, 60))
    letters = [draw(st.sampled_from(sorted(table))) for _ in range(n)]
    if alphabet == "PROTEIN" and n >= 3 and draw(st.integers(0, 5)) == 0:
        # a peptide whose one-letter sequence happens to spell the name of another alphabet (Asp-Asn-Ala ...)
        at = draw(st.integers(0, n - 3))
        letters[at:at + 3] = list(draw(st.sampled_from(["DNA", "RNA"])))
    lines = _break(draw, letters)
    # the file may end without a line break after its last line
    spec = {"kind": kind, "alphabet": alphabet, "letters": letters, "lines": lines,
            "eof_newline": draw(st.sampled_from([True, True, False])),
            # free text of the header / comment lines: ordinary lower-case words, some of which contain the letters
            # of another alphabet's keyword (inteRNAl, alteRNAtive, ...)
            "words": draw(st.sampled_from(["some", "some", "internal fragment of", "alternative", "external journal entry",
                                           "random", "protein-like", "dnase treated"]))}
    if kind == "ig":
        spec["circular"] = draw(st.booleans()) and n >= 3
        spec["comments"] = draw(st.integers(1, 3))
        spec["second"] = draw(st.booleans())
        spec["title"] = draw(st.sampled_from(["title", "my sequence", "seq_A", "XYZ", "TAG", "GATTACA", "CAT",
                                                "DNA_ligase_fragment", "RNA polymerase subunit"]))
    else:
        spec["second"] = draw(st.booleans())
        spec["blank_end"] = draw(st.booleans())
    return spec


@st.composite
def _json(draw):
    n = draw(st.integers(1, 12))
    shape = draw(st.sampled_from(["path", "tree", "ring"])) if n > 2 else "path"
    edges = []
    if shape == "path":
        edges = [[i, i + 1] for i in range(n - 1)]
    elif shape == "tree":
        edges = [[draw(st.integers(0, i - 1)), i] for i in range(1, n)]
    else:
        edges = [[i, i + 1] for i in range(n - 1)] + [[n - 1, 0]]
    with_resid = draw(st.booleans())
    start = draw(st.sampled_from([1, 1, 3, 10])) if with_resid else 1
    nodes = [{"id": i, "resname": draw(st.sampled_from(NAMES))} for i in range(n)]
    if with_resid:
        for i, nd in enumerate(nodes):
            nd["resid"] = start + i
    if draw(st.booleans()):
        for nd in nodes:
            if draw(st.integers(0, 3)) == 0:
                nd["chiral"] = draw(st.sampled_from(["R", "S"]))
    eds = []
    for u, v in edges:
        e = {"source": u, "target": v} if draw(st.booleans()) else {"source": v, "target": u}
        if draw(st.integers(0, 5)) == 0:
            e["linktype"] = "circle"
        eds.append(e)
    order = list(draw(st.permutations(range(n))))
    return {"kind": "json", "nodes": nodes, "edges": eds, "record_order": order,
            "edge_key": draw(st.sampled_from(["edges", "links"])), "shape": shape}


@st.composite
def _genseq(draw):
    nmacro = draw(st.integers(1, 3))
    macros = []
    for i in range(nmacro):
        macros.append({"tag": "ABC"[i], "levels": draw(st.integers(1, 4)), "bfact": draw(st.integers(1, 3)),
                       "resname": draw(st.sampled_from(NAMES))})
        if draw(st.integers(0, 2)) == 0:
            # a mix in which every other residue has probability 0: still deterministic
            others = draw(st.lists(st.sampled_from([x for x in NAMES if x != macros[-1]["resname"]]),
                                   min_size=1, max_size=2, unique=True))
            macros[-1]["mix"] = others
            macros[-1]["mix_pos"] = draw(st.integers(0, len(others)))
    use_file = draw(st.integers(0, 3)) == 0
    filemacro = None
    if use_file:
        nres = draw(st.integers(1, 3))
        filemacro = {"tag": "F", "name": "FM", "resnames": [draw(st.sampled_from(NAMES)) for _ in range(nres)]}
    tags = [m["tag"] for m in macros] + (["F"] if use_file else [])
    seq = [draw(st.sampled_from(tags)) for _ in range(draw(st.integers(1, 4)))]
    sizes = []
    for tag in seq:
        if tag == "F":
            sizes.append(len(filemacro["resnames"]))
        else:
            m = [x for x in macros if x["tag"] == tag][0]
            sizes.append(sum(m["bfact"] ** lvl for lvl in range(m["levels"])))
    connects = []      # [block i, block j, [[node in i, node in j], ...]] - one record may list several pairs

    def pairs(i, j):
        out = []
        for _ in range(draw(st.sampled_from([1, 1, 2, 3]))):
            pr = [draw(st.integers(0, sizes[i] - 1)), draw(st.integers(0, sizes[j] - 1))]
            if pr not in out:
                out.append(pr)
        return out

    for i in range(len(seq) - 1):
        if draw(st.integers(0, 4)) > 0:
            connects.append([i, i + 1, pairs(i, i + 1)])
    if len(seq) > 2 and draw(st.integers(0, 3)) == 0:
        connects.append([0, len(seq) - 1, pairs(0, len(seq) - 1)])
    # a record may name the later block first (j:i:b-a means the same bonds as i:j:a-b)
    connects = [[j, i, [[b, a] for a, b in prs]] if draw(st.integers(0, 3)) == 0 else [i, j, prs]
                for i, j, prs in connects]
    modf = []
    if draw(st.integers(0, 2)) == 0:
        modf.append([draw(st.integers(0, len(seq) - 1)), "TER"])
    labels = []
    if draw(st.integers(0, 2)) == 0:
        labels.append([draw(st.integers(0, len(seq) - 1)), "chiral", draw(st.sampled_from(["R", "S"]))])
        # further labels, also a second attribute for a block that already has one
        for _ in range(draw(st.integers(0, 2))):
            blk = draw(st.integers(0, len(seq) - 1))
            attr = draw(st.sampled_from(["charge", "tact"]))
            if not any(l[0] == blk and l[1] == attr for l in labels):
                labels.append([blk, attr, draw(st.sampled_from(["neg", "pos", "iso"]))])
    return {"kind": "genseq", "macros": macros, "filemacro": filemacro, "seq": seq, "connects": connects,
            "modf": modf, "labels": labels}


def strategy(tier):
    return st.one_of(_seq(), _txt(), _plain("fasta"), _plain("ig"), _json(), _genseq())


# ----------------------------------------------------------------------------
def expected_plain(spec):
    table = {"DNA": DNA, "RNA": RNA, "PROTEIN": AA}[spec["alphabet"]]
    names = [table[l] for l in spec["letters"]]
    n = len(names)
    circular = spec.get("circular", False)
    if spec["alphabet"] != "PROTEIN" and not circular:
        names[0] += "5"
        names[-1] += "3"
    edges = {frozenset((i, i + 1)): None for i in range(n - 1)}
    if circular:
        edges[frozenset((0, n - 1))] = "circle"
    return names, edges


def balanced_tree_edges(bfact, levels):
    n = sum(bfact ** lvl for lvl in range(levels))
    return n, [((k - 1) // bfact, k) for k in range(1, n)]


def graph_summary(graph):
    """(names by resid, {frozenset(resid pair): linktype}, labels by resid, node->resid)"""
    resid = {n: graph.nodes[n].get("resid") for n in graph.nodes}
    names = {resid[n]: graph.nodes[n].get("resname") for n in graph.nodes}
    edges = {}
    for u, v, data in graph.edges(data=True):
        edges[frozenset((resid[u], resid[v]))] = data.get("linktype")
    return names, edges, resid


def compare(meta, want_names, want_edges, clause, first_resid=1, resids=None):
    names, edges, resid = graph_summary(meta)
    n = len(want_names)
    if resids is None:
        resids = [first_resid + i for i in range(n)]
    if len(meta.nodes) != n:
        raise Violation(f"{clause}:count", f"{len(meta.nodes)} residues, expected {n}")
    if sorted(resid.values()) != sorted(resids):
        raise Violation(f"{clause}:resids", f"resids {sorted(resid.values())[:8]}.. expected {resids[:8]}..")
    for i, rid in enumerate(resids):
        if names.get(rid) != want_names[i]:
            raise Violation(f"{clause}:names", f"residue {rid} is {names.get(rid)!r}, expected {want_names[i]!r}")
    want = {frozenset((resids[a], resids[b])): lt for (a, b), lt in
            ((tuple(sorted(k)), v) for k, v in want_edges.items())}
    if set(want) != set(edges):
        raise Violation(f"{clause}:edges", f"missing={sorted(map(sorted, set(want) - set(edges)))[:3]} "
                                           f"extra={sorted(map(sorted, set(edges) - set(want)))[:3]}")
    for key, lt in want.items():
        if edges[key] != lt:
            raise Violation(f"{clause}:edge_label", f"edge {sorted(key)} label {edges[key]!r} expected {lt!r}")


def check(spec, ctx):
    import vermouth.forcefield
    from polyply.src.meta_molecule import MetaMolecule
    from polyply.src.gen_itp import split_seq_string
    ff = vermouth.forcefield.ForceField("x")
    kind = spec["kind"]
    ctx.label("kind_" + kind)
    if kind == "seq":
        try:
            monomers = split_seq_string([f"{n}:{c}" for n, c in spec["parts"]])
            meta = MetaMolecule.from_monomer_seq_linear(ff, monomers, "mol")
        except Exception as err:
            raise crash("seq:crash", err)
        names = [n for n, c in spec["parts"] for _ in range(c)]
        compare(meta, names, {frozenset((i, i + 1)): None for i in range(len(names) - 1)}, "seq")
        ctx.nontrivial = len(names) >= 3 and len(spec["parts"]) >= 2
        return
    if kind == "txt":
        path = ctx.dir / "seq.txt"
        path.write_text("\n".join(spec["lines"]) + ("\n" if spec["trailing_newline"] else ""))
        try:
            meta = MetaMolecule.from_sequence_file(ff, path, "mol")
        except Exception as err:
            raise crash("txt:crash", err)
        names = spec["names"]
        compare(meta, names, {frozenset((i, i + 1)): None for i in range(len(names) - 1)}, "txt")
        ctx.nontrivial = len(names) >= 3 and len(spec["lines"]) >= 2
        return
    if kind in ("fasta", "ig"):
        if kind == "fasta":
            text = f"> {spec.get('words', 'some')} {spec['alphabet']} sequence\n" + "\n".join(spec["lines"]) + "\n"
            if spec["blank_end"]:
                text += "\n"
            if spec["second"]:
                text += "> second DNA\nACGT\n"
            path = ctx.dir / "seq.fasta"
        else:
            text = "".join(f"; comment {i} {spec.get('words', '') + ' ' + spec['alphabet'] if i == 0 else ''}\n"
                           for i in range(spec["comments"]))
            text += spec["title"] + "\n"
            lines = list(spec["lines"])
            lines[-1] += "2" if spec["circular"] else "1"
            text += "\n".join(lines) + "\n"
            if spec["second"]:
                text += "; DNA\nsecond\nACGT1\n"
            path = ctx.dir / "seq.ig"
        if not spec.get("eof_newline", True):
            text = text.rstrip("\n")
            ctx.label("no_newline_at_end_of_file")
        path.write_text(text)
        try:
            meta = MetaMolecule.from_sequence_file(ff, path, "mol")
        except Exception as err:
            raise crash(f"{kind}:crash", err)
        names, edges = expected_plain(spec)
        compare(meta, names, edges, kind)
        if spec.get("circular"):
            ctx.label("circular")
        ctx.nontrivial = len(names) >= 3 and len(spec["lines"]) >= 2
        return
    if kind == "json":
        nodes = [spec["nodes"][i] for i in spec["record_order"]]
        data = {"directed": False, "multigraph": False, "graph": {}, "nodes": nodes, spec["edge_key"]: spec["edges"]}
        path = ctx.dir / "seq.json"
        path.write_text(json.dumps(data))
        try:
            meta = MetaMolecule.from_sequence_file(ff, path, "mol")
        except Exception as err:
            raise crash("json:crash", err)
        names = [nd["resname"] for nd in spec["nodes"]]
        resids = [nd.get("resid", nd["id"] + 1) for nd in spec["nodes"]]
        edges = {frozenset((e["source"], e["target"])): e.get("linktype") for e in spec["edges"]}
        compare(meta, names, edges, "json", resids=resids)
        for nd in spec["nodes"]:
            got = meta.nodes[nd["id"]]
            for key in ("chiral",):
                if got.get(key) != nd.get(key):
                    raise Violation("json:labels", f"node {nd['id']} {key}={got.get(key)!r} expected {nd.get(key)!r}")
        ctx.label("edge_key_" + spec["edge_key"])
        ctx.nontrivial = len(names) >= 3 and (spec["shape"] != "path" or spec["record_order"] != sorted(spec["record_order"]))
        return
    if kind == "genseq":
        return check_genseq(spec, ctx, ff)
    raise Reject("unknown kind")


def check_genseq(spec, ctx, ff):
    from polyply.src.gen_seq import gen_seq
    from polyply.src.meta_molecule import MetaMolecule
    macro_strings = []
    for m in spec["macros"]:
        parts = [f"{o}-0.0" for o in m.get("mix", [])]
        parts.insert(m.get("mix_pos", 0), f"{m['resname']}-1.0")
        macro_strings.append(f"{m['tag']}:{m['levels']}:{m['bfact']}:" + ",".join(parts))
        if m.get("mix"):
            ctx.label("macro_mix_with_zero_weights")
    inpath, from_file = [], None
    if spec["filemacro"]:
        fm = spec["filemacro"]
        lines = ["[ moleculetype ]", f"{fm['name']} 1", "[ atoms ]"]
        for i, rn in enumerate(fm["resnames"], start=1):
            lines.append(f"{i} T1 {i} {rn} BB {i} 0.0 36.0")
        if len(fm["resnames"]) > 1:
            lines.append("[ bonds ]")
            for i in range(1, len(fm["resnames"])):
                lines.append(f"{i} {i + 1} 1 0.3 100")
        path = ctx.dir / "macro.itp"
        path.write_text("\n".join(lines) + "\n")
        inpath = [path]
        from_file = [f"{fm['tag']}:{fm['name']}"]
    out = ctx.dir / "seq.json"
    try:
        gen_seq(name="mol", outpath=out, seq=spec["seq"], inpath=inpath, macro_strings=macro_strings,
                from_file=from_file, connects=[f"{i}:{j}:" + ",".join(f"{a}-{b}" for a, b in prs) for i, j, prs in spec["connects"]],
                modifications=[f"{i}:{rn}" for i, rn in spec["modf"]],
                tags=[f"{i}:{lab}:{val}-1.0" for i, lab, val in spec["labels"]])
    except Exception as err:
        raise crash("genseq:crash", err)
    if not out.exists():
        raise Violation("genseq:no_output", "no json written")
    # model
    names, seqid, edges = [], [], {}
    offsets = []
    for idx, tag in enumerate(spec["seq"]):
        offsets.append(len(names))
        if tag == "F":
            rns = spec["filemacro"]["resnames"]
            local_edges = [(i, i + 1) for i in range(len(rns) - 1)]
        else:
            m = [x for x in spec["macros"] if x["tag"] == tag][0]
            n, local_edges = balanced_tree_edges(m["bfact"], m["levels"])
            rns = [m["resname"]] * n
        for a, b in local_edges:
            edges[frozenset((offsets[idx] + a, offsets[idx] + b))] = None
        names += rns
        seqid += [idx] * len(rns)
    for i, j, prs in spec["connects"]:
        for a, b in prs:
            edges[frozenset((offsets[i] + a, offsets[j] + b))] = None
    degree = {k: 0 for k in range(len(names))}
    for e in edges:
        for k in e:
            degree[k] += 1
    for i, rn in spec["modf"]:
        for k in range(len(names)):
            if seqid[k] == i and degree[k] == 1:
                names[k] = rn
    labels = {}
    for i, lab, val in spec["labels"]:
        for k in range(len(names)):
            if seqid[k] == i:
                labels.setdefault(k, {})[lab] = val
    # (a) the written json, read independently
    data = json.loads(out.read_text())
    key = "edges" if "edges" in data else "links"
    got_nodes = {nd["id"]: nd for nd in data["nodes"]}
    if sorted(got_nodes) != list(range(len(names))):
        raise Violation("genseq:node_ids", f"{sorted(got_nodes)[:10]}")
    for k in range(len(names)):
        if got_nodes[k].get("resname") != names[k]:
            raise Violation("genseq:names", f"node {k} is {got_nodes[k].get('resname')!r} expected {names[k]!r}")
        if got_nodes[k].get("seqid") != seqid[k]:
            raise Violation("genseq:seqid", f"node {k} seqid {got_nodes[k].get('seqid')!r} expected {seqid[k]}")
        for lab, val in labels.get(k, {}).items():
            if got_nodes[k].get(lab) != val:
                raise Violation("genseq:labels", f"node {k} {lab}={got_nodes[k].get(lab)!r} expected {val!r}")
        for lab in ("chiral", "charge", "tact"):
            if lab in got_nodes[k] and lab not in labels.get(k, {}):
                raise Violation("genseq:labels", f"node {k} carries {lab} without a label record for its block")
    got_edges = {frozenset((e["source"], e["target"])) for e in data[key]}
    if got_edges != set(edges):
        raise Violation("genseq:edges", f"missing={sorted(map(sorted, set(edges) - got_edges))[:3]} "
                                        f"extra={sorted(map(sorted, got_edges - set(edges)))[:3]}")
    # (b) read back by gen_params' reader
    try:
        meta = MetaMolecule.from_sequence_file(ff, out, "mol")
    except Exception as err:
        raise crash("genseq:readback_crash", err)
    compare(meta, names, edges, "genseq_readback")
    for k, labs in labels.items():
        for lab, val in labs.items():
            if meta.nodes[k].get(lab) != val:
                raise Violation("genseq_readback:labels", f"node {k} {lab}={meta.nodes[k].get(lab)!r}")
    if spec["connects"]:
        ctx.label("connects")
    if any(len(prs) > 1 for _, _, prs in spec["connects"]):
        ctx.label("multi_pair_connect")
    if spec["filemacro"] and "F" in spec["seq"]:
        ctx.label("from_file")
    if spec["modf"]:
        ctx.label("modf_ter")
    if spec["labels"]:
        ctx.label("labels")
    ctx.nontrivial = len(names) >= 3 and len(spec["seq"]) >= 2 and bool(spec["connects"])
