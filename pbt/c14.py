"""C14 - mixed exclusion distances are honoured atom by atom."""
import itertools
from collections import deque

import hypothesis.strategies as st

from . import gp, gpcheck, model as mdl
from .core import Violation, Reject

PID = "C14"
LEVEL = "exploration"
RULE = ("Hypothesis-generated force fields whose blocks carry independent exclusion distances 0-4, combined in "
        "linear/tree/ring residue graphs with bond/constraint links, block- and link-level [exclusions] and "
        "[pairs], plus a flavour with multi-residue (from_itp) blocks whose residues carry the residue name of a regular block; judged from the written .itp alone: bond graph = bonds+constraints of the file, "
        "effective(a,b) = dist<=nrexcl(file) or listed in [exclusions]; required(a,b) = dist<=max(nrexcl of "
        "the two atoms' blocks) or explicitly excluded by a block/link of the spec; all atom pairs compared. "
        "non-trivial = >=2 distinct block nrexcl in the molecule and >=1 pair whose distance lies between "
        "them; distinct = spec hash")
ASSUMPTIONS = ["angles and dihedrals are generated along bonds, so interaction-made edges equal the bond graph",
               "independent .itp reader pbt/itp.py", "reference model only supplies the explicit exclusions "
               "(block + applied links)"]
BUDGET = {"quick": (16, 200), "thorough": (16, 5000)}


def _case(mixed, safe, removal=False):
    return gp.case(mixed_nrexcl=mixed, link_bias=True, bonded_only=True, max_res=6, allow_replace=removal,
                   removal_bias=removal,
                   f22_safe=safe, min_blocks=2 if mixed else 1, min_res=2, explicit_links=True,
                   name_modes=("block", "random", "random") if mixed else ("homo", "block", "random"))


def strategy(tier):
    # the shape of known finding F22 is excluded by construction in 5 of 6 draws
    return st.one_of(gp.multires_case(mixed_nrexcl=True, bonded_only=True),_case(True, True), _case(True, True), _case(True, True), _case(True, True),
                     _case(False, True), _case(True, False), _case(True, True, removal=True))


def f22_shape(spec):
    """F22: a polyply .itp is among the inputs and some block/link has an interaction section that
    is not a bond, constraint, angle or proper dihedral (those make extra graph edges)."""
    if not any(f["kind"] == "itp" for f in spec["files"]):
        return False
    def odd(it):
        return it["sec"] in ("pairs", "exclusions", "virtual_sites2") or mdl.is_improper(it)
    return any(odd(it) for b in spec["blocks"] for it in b["inter"]) or \
        any(odd(it) for l in spec["links"] for it in l["inter"])


KNOWN = {"F22": f22_shape}


def distances(n, edges):
    adj = {i: set() for i in range(1, n + 1)}
    for a, b in edges:
        adj[a].add(b)
        adj[b].add(a)
    dist = {}
    for src in adj:
        seen = {src: 0}
        queue = deque([src])
        while queue:
            cur = queue.popleft()
            if seen[cur] >= 5:
                continue
            for nxt in adj[cur]:
                if nxt not in seen:
                    seen[nxt] = seen[cur] + 1
                    queue.append(nxt)
        dist[src] = seen
    return dist


def check(spec, ctx):
    model = mdl.expected(spec)
    if model.invalid:
        raise Reject(model.invalid)
    run, written = gpcheck.execute(spec, ctx, clause="gen_params")
    if model.undetermined:
        ctx.label("order_dependent_not_asserted")
        return
    n = len(written["atoms"])
    if n != len(model.atoms):
        raise Violation("atoms:count", f"{n} vs {len(model.atoms)}")
    bonds = set()
    for sec in ("bonds", "constraints"):
        for it in written["inter"].get(sec, []):
            bonds.add(tuple(it["atoms"][:2]))
    # an applied link may also declare an edge in an [ edges ] section without giving it an interaction: that is a
    # bond of the molecule as far as polyply is told, although no line of the file shows it
    n_old = len(model.atoms) + len(model.removed)
    keep = [i for i in range(1, n_old + 1) if i not in model.removed]
    renum = {old: new for new, old in enumerate(keep, start=1)}
    declared = 0
    for m in model.matches:
        for a, b, _attrs in m["spec"].get("edges", []):
            ia, ib = renum.get(m["atoms"][a]), renum.get(m["atoms"][b])
            if ia and ib and ia != ib and (ia, ib) not in bonds and (ib, ia) not in bonds:
                bonds.add((ia, ib))
                declared += 1
    if declared:
        ctx.label("edges_declared_without_interaction")
    dist = distances(n, bonds)
    listed = set()
    for it in written["inter"].get("exclusions", []):
        first = it["atoms"][0]
        for other in it["atoms"][1:]:
            listed.add(frozenset((first, other)))
    explicit = set()
    for (sec, atoms, version) in model.inter:
        if sec == "exclusions":
            for other in atoms[1:]:
                explicit.add(frozenset((atoms[0], other)))
    block_excl = [model.residues[a["res"]]["block"]["nrexcl"] for a in model.atoms]
    used = sorted(set(block_excl))
    mol_excl = written["nrexcl"]
    between = 0
    for a, b in itertools.combinations(range(1, n + 1), 2):
        d = dist[a].get(b, 99)
        effective = d <= mol_excl or frozenset((a, b)) in listed
        need = max(block_excl[a - 1], block_excl[b - 1])
        required = d <= need or frozenset((a, b)) in explicit
        if min(used) < d <= max(used):
            between += 1
        if effective and not required:
            raise Violation("excluded_but_not_required",
                            f"atoms {a},{b} dist {d}: molecule nrexcl {mol_excl}, blocks prescribe "
                            f"{block_excl[a-1]}/{block_excl[b-1]}, listed={frozenset((a, b)) in listed}")
        if required and not effective:
            raise Violation("required_but_not_excluded",
                            f"atoms {a},{b} dist {d}: molecule nrexcl {mol_excl}, blocks prescribe "
                            f"{block_excl[a-1]}/{block_excl[b-1]}")
    if len(used) == 1:
        if mol_excl != used[0]:
            raise Violation("uniform:nrexcl_changed", f"blocks prescribe {used[0]}, molecule has {mol_excl}")
        if listed - explicit:
            raise Violation("uniform:invented_exclusions", f"{sorted(map(sorted, listed - explicit))[:3]}")
        ctx.label("uniform")
    else:
        ctx.label("mixed")
    if model.matches:
        ctx.label("links_applied")
    ctx.nontrivial = len(used) >= 2 and between >= 1
