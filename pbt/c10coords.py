"""gen_coords half of C10 (placeholder until the gen_coords driver exists)."""
import hypothesis.strategies as st


def strategy():
    return st.nothing()


def check(spec, ctx):
    raise NotImplementedError
