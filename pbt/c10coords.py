"""gen_coords half of C10: a molecule whose atoms are not all connected is refused."""
import copy

import hypothesis.strategies as st

from . import gc
from .core import Violation, Reject, crash


@st.composite
def strategy(draw):
    spec = draw(gc.system(max_moltypes=2, max_res=5, max_total_mol=3))
    mode = draw(st.sampled_from(["connected", "atom", "atom", "residue", "group"]))
    spec = copy.deepcopy(spec)
    pristine = copy.deepcopy(spec["moltypes"])
    used = {n for n, _ in spec["molecules"]}
    mts = [mt for mt in spec["moltypes"] if mt["name"] in used]
    if mode == "atom":
        cands = [(mt, r) for mt in mts for r, res in enumerate(mt["residues"]) if len(res["atoms"]) - (1 if res["vs"] else 0) >= 2]
        if not cands:
            mode = "connected"
        else:
            mt, r = draw(st.sampled_from(cands))
            res = mt["residues"][r]
            nreal = len(res["atoms"]) - (1 if res["vs"] else 0)
            victim = nreal - 1          # last real atom: a leaf of the bond tree, not used by the virtual site (atoms 0,1)
            if res["vs"] and victim in res["vs"]["atoms"][1:]:
                mode = "connected"
            elif r > 0 and False:
                pass
            else:
                res["bonds"] = [b for b in res["bonds"] if victim not in (b[0], b[1])]
                if victim == 0:
                    mode = "connected"      # atom 0 carries the inter-residue bonds
                spec["broken"] = {"mol": mt["name"], "residue": r, "atom": victim}
    if mode == "group":
        # a group of two or more atoms that hang together but not with the rest of their residue: the bond between
        # atoms 0 and 1 is taken out of a residue in which atom 1 has further atoms bonded to it (atom 0 carries the
        # bonds to other residues; residues with a virtual site, which is built from atoms 0 and 1, are left alone)
        cands = [(mt, r) for mt in mts for r, res in enumerate(mt["residues"])
                 if not res["vs"] and any(b[0] == 1 for b in res["bonds"])]
        if not cands:
            mode = "connected"
        else:
            mt, r = draw(st.sampled_from(cands))
            res = mt["residues"][r]
            res["bonds"] = [b for b in res["bonds"] if (b[0], b[1]) != (0, 1)]
            spec["broken"] = {"mol": mt["name"], "residue": r, "group_from_atom": 1}
    if mode == "residue":
        cands = [mt for mt in mts if len(mt["residues"]) >= 2 and mt["shape"] != "ring"]
        if not cands:
            mode = "connected"
        else:
            mt = draw(st.sampled_from(cands))
            k = draw(st.integers(0, len(mt["res_edges"]) - 1))
            spec["broken"] = {"mol": mt["name"], "edge": mt["res_edges"][k]}
            r1, r2 = mt["res_edges"][k]
            if len(mt["residues"][r1]["atoms"]) + len(mt["residues"][r2]["atoms"]) >= 3 and draw(st.booleans()):
                # the two parts still share an angle: that is no connection
                mt["angle_only_edges"] = [[r1, r2]]
                spec["broken"]["angle"] = True
            mt["res_edges"] = [e for i, e in enumerate(mt["res_edges"]) if i != k]
    if mode != "connected" and draw(st.integers(0, 2)) > 0:
        # the disconnected molecule is not the first one of [ molecules ]: an intact copy of the same
        # molecule type (under another name) or another intact type comes first
        bad = spec["broken"]["mol"]
        others = [e for e in spec["molecules"] if e[0] != bad]
        if others and draw(st.booleans()):
            first = others[0]
            spec["molecules"] = [first] + [e for e in spec["molecules"] if e is not first]
        else:
            twin = copy.deepcopy([mt for mt in pristine if mt["name"] == bad][0])
            twin["name"] = "MZ"
            spec["moltypes"].append(twin)
            spec["molecules"] = [["MZ", draw(st.integers(1, 2))]] + spec["molecules"]
        spec["bad_not_first"] = True
    edge = gc.dilute_box(spec)
    spec["opts"] = {"box": [edge, edge, edge]}
    if draw(st.integers(0, 2)) == 0:
        # a start structure that covers part of the system (possibly part of the disconnected molecule):
        # the molecule is refused all the same
        from . import c03
        spec["coords"] = draw(c03.supplied_coords(spec, [edge, edge, edge], mode=draw(st.sampled_from(["c", "mc"])),
                                                  nres=draw(st.integers(1, max(1, sum(
                                                      c * len([m for m in spec["moltypes"] if m["name"] == n][0]["residues"])
                                                      for n, c in spec["molecules"]) - 1)))))
        spec["with_coords"] = True
    spec["half"] = "gen_coords"
    spec["mode"] = mode
    return spec


def check(spec, ctx):
    res = gc.run_gen_coords(spec, ctx)
    mode = spec["mode"]
    ctx.label("coords_" + mode)
    if mode == "connected":
        if res.exc is not None:
            if isinstance(res.exc, (IOError, OSError)):
                raise Violation("gen_coords:connected_molecule_refused", str(res.exc)[:300])
            raise crash("gen_coords:crash", res.exc)
        return
    if res.exc is None:
        raise Violation(f"gen_coords:disconnected_{mode}_accepted",
                        f"a molecule with an unconnected {mode} ({spec.get('broken')}) was built without an error")
    if not isinstance(res.exc, (IOError, OSError)):
        raise crash(f"gen_coords:disconnected_{mode}_crash", res.exc)
    if spec.get("bad_not_first"):
        ctx.label("coords_disconnected_not_first")
    if spec.get("with_coords"):
        ctx.label("coords_disconnected_with_start_structure")
    ctx.nontrivial = True
