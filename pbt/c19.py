"""C19 - dsDNA completion adds the antiparallel Watson-Crick complement."""
import hypothesis.strategies as st

from .core import Violation, Reject, crash

PID = "C19"
LEVEL = "exploration"
RULE = ("generated DNA strands of 1-120 nucleotides (linear with 5'/3' terminal names, circular without) "
        "built as residue graphs directly, through .ig files, and through gen_params -dsdna with a generated "
        "12-block DNA force field; complement_dsDNA is compared with an independent model (pairing table, "
        "mirrored order, 5'<->3' exchange, copied edge labels (one or two per edge), strands not bridged, circular closing edge) and "
        "complementing the extracted second strand must return the original names; negative cases replace one "
        "name by an unknown one and must raise. non-trivial = n>=3 with >=3 distinct bases; distinct = spec hash")
ASSUMPTIONS = ["KeyError and IOError both count as rejection of an unknown residue name"]
BUDGET = {"quick": (16, 250), "thorough": (16, 8000)}

PAIR = {"DA": "DT", "DT": "DA", "DG": "DC", "DC": "DG"}
BASES = ["DA", "DC", "DG", "DT"]


@st.composite
def _strategy(draw):
    n = draw(st.integers(1, 120)) if draw(st.integers(0, 3)) else draw(st.integers(1, 6))
    if draw(st.integers(0, 39)) == 0:
        n = draw(st.integers(250, 330))        # plasmid-sized strands (node keys beyond the small-integer range)
    pattern = [draw(st.sampled_from(BASES)) for _ in range(min(n, 120))]
    bases = [pattern[i % len(pattern)] for i in range(n)]
    circular = draw(st.booleans()) and n >= 3
    route = draw(st.sampled_from(["graph", "graph", "ig", "gen_params"]))
    if route == "gen_params":
        n = min(n, 12)
        bases = bases[:n]
        circular = circular and n >= 3
    if n < 2 and route != "graph":
        route = "graph"
    bad = None
    if draw(st.integers(0, 5)) == 0:
        bad = [draw(st.integers(0, n - 1)), draw(st.sampled_from(["DX", "A", "PEO", "DA55"]))]
    labels = []
    if route == "graph" and draw(st.integers(0, 2)) == 0 and n >= 2:
        for _ in range(draw(st.integers(1, 3))):
            labels.append([draw(st.integers(0, n - 2)), draw(st.sampled_from(["a", "b", "a", 0, False, "", 0.0]))])
    # node keys of the input graph need not start at 0, and the edge records may come in any order
    key_offset = draw(st.sampled_from([0, 0, 1, 7])) if route in ("graph", "gen_params") else 0
    edge_order = list(draw(st.permutations(range(max(n - 1, 0))))) if route == "graph" and draw(st.booleans()) else None
    # the node records of a residue graph may come in any order and carry any distinct keys (the residue ids
    # say which residue is which)
    node_order = None
    idmap = None
    if route in ("gen_params", "graph") and len(bases) <= 40 and draw(st.booleans()):
        node_order = list(draw(st.permutations(range(len(bases)))))
        if draw(st.booleans()):
            how = draw(st.sampled_from(["random", "random", "reversed", "rotated"]))
            nb = len(bases)
            if how == "random":
                idmap = draw(st.lists(st.integers(0, 99), min_size=nb, max_size=nb, unique=True))
            elif how == "reversed":
                idmap = [nb - 1 - i for i in range(nb)]       # the strand listed 3' to 5': key 0 is the last residue
            else:
                shift = draw(st.integers(1, max(1, nb - 1)))
                idmap = [(i + shift) % nb for i in range(nb)]
            key_offset = 0
    # a residue graph need not carry residue ids: they then follow from the node keys 0..n-1
    no_resid = (route in ("gen_params", "graph") and key_offset == 0 and idmap is None
                and draw(st.integers(0, 2)) == 0)
    resid_start = draw(st.sampled_from([1, 1, 1, 0, 5])) if route == "graph" else 1
    return {"bases": bases, "circular": circular, "route": route, "bad": bad, "edge_labels": labels, "resid_start": resid_start,
            "no_resid": no_resid, "key_offset": key_offset, "edge_order": edge_order, "node_order": node_order, "idmap": idmap,
            "rng": draw(st.integers(0, 2**31 - 1))}


def strategy(tier):
    return _strategy()


def names_of(spec):
    names = list(spec["bases"])
    if not spec["circular"]:
        if len(names) == 1:
            names[0] += "5"            # a single linear nucleotide: one terminal name
        else:
            names[0] += "5"
            names[-1] += "3"
    return names


def comp(name):
    base, suffix = name[:2], name[2:]
    return PAIR[base] + {"5": "3", "3": "5", "": ""}[suffix]


FF_TEMPLATE = """[ moleculetype ]
{name} 1
[ atoms ]
1 T1 1 {name} BB 1 0.0 72.0
2 T2 1 {name} SC1 1 0.0 72.0
[ bonds ]
BB SC1 1 0.3 1000
"""

FF_LINKS = """[ link ]
resname "{all}"
[ bonds ]
BB +BB 1 0.35 2000

[ link ]
resname "{all}"
[ bonds ]
BB >BB 1 0.36 2100 {{"comment": "circle"}}
[ edges ]
BB >BB {{"linktype": "circle"}}
"""


def check(spec, ctx):
    import networkx as nx
    import vermouth.forcefield
    from polyply.src.meta_molecule import MetaMolecule
    from polyply.src.gen_dna import complement_dsDNA
    names = names_of(spec)
    n = len(names)
    if spec["bad"]:
        names[spec["bad"][0]] = spec["bad"][1]
    route = spec["route"]
    ctx.label("route_" + route)
    ff = vermouth.forcefield.ForceField("x")
    edge_labels = {}
    if route == "graph":
        graph = nx.Graph()
        off = spec.get("key_offset", 0)
        key = spec.get("idmap") or [i + off for i in range(n)]
        for i in (spec.get("node_order") or range(n)):
            rs = spec.get("resid_start", 1)
            if spec.get("no_resid"):
                graph.add_node(key[i], resname=names[i])       # the residue ids follow from the node keys
            else:
                graph.add_node(key[i], resname=names[i], resid=i + rs)
        order = spec.get("edge_order") or list(range(n - 1))
        for i in order:
            graph.add_edge(key[i], key[i + 1])
        for pos, lab in spec["edge_labels"]:
            graph.edges[(key[pos], key[pos + 1])]["tag"] = lab
            if (spec["rng"] // 11) % 2 == 0:      # an edge may carry several labels at once
                graph.edges[(key[pos], key[pos + 1])]["note"] = "n"
                ctx.label("edge_with_two_labels")
            edge_labels[frozenset((pos + 1, pos + 2))] = lab
        if spec["circular"]:
            # the ring is a matter of topology: the closing edge may carry the parser's label, none, or another one
            closing = [{"linktype": "circle"}, {}, {"tag": "E"}, {"linktype": "circle", "tag": "E"}][(spec["rng"] // 7) % 4]
            graph.add_edge(key[0], key[n - 1], **closing)
            if "linktype" not in closing:
                ctx.label("ring_without_circle_label")
        if off:
            ctx.label("offset_node_keys")
        if spec.get("idmap"):
            ctx.label("arbitrary_node_keys")
        if spec.get("node_order") and spec["node_order"] != sorted(spec["node_order"]):
            ctx.label("node_records_permuted")
        if spec.get("edge_order") and spec["edge_order"] != sorted(spec["edge_order"]):
            ctx.label("permuted_edge_records")
        meta = MetaMolecule(graph, force_field=ff, mol_name="mol")
    elif route == "ig":
        if spec["bad"]:
            raise Reject("negative cases are built as graphs")
        letters = "".join(b[1] for b in spec["bases"])
        text = "; DNA sequence\ntitle\n" + letters + ("2" if spec["circular"] else "1") + "\n"
        path = ctx.dir / "seq.ig"
        path.write_text(text)
        try:
            meta = MetaMolecule.from_sequence_file(ff, path, "mol")
        except Exception as err:
            raise crash("ig:crash", err)
    else:
        return check_gen_params(spec, ctx, names)

    # the strand may be numbered from another value than 1 (graph route): everything is compared in ids relative to it
    base = (spec.get("resid_start", 1) - 1) if (route == "graph" and not spec.get("no_resid")) else 0
    before_nodes = {meta.nodes[k]["resid"] - base: meta.nodes[k]["resname"] for k in meta.nodes}
    before_edges = {frozenset((meta.nodes[u]["resid"] - base, meta.nodes[v]["resid"] - base)): dict(d)
                    for u, v, d in meta.edges(data=True)}
    try:
        complement_dsDNA(meta)
    except (KeyError, IOError) as err:
        if spec["bad"]:
            ctx.label("unknown_rejected")
            ctx.nontrivial = n >= 3
            return
        raise crash("complement:crash", err)
    except Exception as err:
        raise crash("complement:crash", err)
    if spec["bad"]:
        raise Violation("unknown_name_accepted", f"residue name {spec['bad'][1]!r} at position {spec['bad'][0]} "
                                                 f"was completed without an error")
    verify(meta, names, before_nodes, before_edges, spec["circular"], "complement", base=base)
    if base:
        ctx.label("strand_numbered_from_" + str(base + 1))
        ctx.nontrivial = n >= 3
        return
    # involution: complement of the second strand gives back the first
    second = nx.Graph()
    resid_to_node = {meta.nodes[k]["resid"]: k for k in meta.nodes}
    keep_ids = spec["rng"] % 2 == 0       # the added strand keeps its residue ids n+1..2n, or is renumbered from 1
    shift = n if keep_ids else 0
    for k in range(1, n + 1):
        second.add_node(k - 1, resname=meta.nodes[resid_to_node[n + k]]["resname"], resid=k + shift)
    for u, v, d in meta.edges(data=True):
        ru, rv = meta.nodes[u]["resid"], meta.nodes[v]["resid"]
        if ru > n and rv > n:
            second.add_edge(ru - n - 1, rv - n - 1, **d)
    meta2 = MetaMolecule(second, force_field=ff, mol_name="mol")
    try:
        complement_dsDNA(meta2)
    except Exception as err:
        raise crash("involution:crash", err)
    second_names = [meta.nodes[resid_to_node[n + k]]["resname"] for k in range(1, n + 1)]
    verify(meta2, second_names, {k: second_names[k - 1] for k in range(1, n + 1)},
           {frozenset((second.nodes[u]["resid"] - shift, second.nodes[v]["resid"] - shift)): dict(d)
            for u, v, d in second.edges(data=True)}, spec["circular"], "involution", base=shift)
    if keep_ids:
        ctx.label("strand_numbered_from_n_plus_1")
    resid_to_node2 = {meta2.nodes[k]["resid"] - shift: k for k in meta2.nodes}
    back = [meta2.nodes[resid_to_node2[n + k]]["resname"] for k in range(1, n + 1)]
    if back != names:
        raise Violation("involution", f"complement of the complement is {back[:6]}.. expected {names[:6]}..")
    if spec["circular"]:
        ctx.label("circular")
    ctx.nontrivial = n >= 3 and len(set(spec["bases"])) >= 3


def verify(meta, names, before_nodes, before_edges, circular, clause, base=0):
    """the strand to complete carries the residue ids base+1 .. base+n; everything below is written in ids
    relative to base"""
    n = len(names)
    nodes = {meta.nodes[k]["resid"] - base: meta.nodes[k]["resname"] for k in meta.nodes}
    if sorted(nodes) != list(range(1, 2 * n + 1)):
        raise Violation(f"{clause}:resids", f"{len(nodes)} residues with resids {[r + base for r in sorted(nodes)][:6]}.. "
                                            f"expected {base + 1}..{base + 2 * n}")
    if len(meta.nodes) != 2 * n:
        raise Violation(f"{clause}:count", f"{len(meta.nodes)} nodes")
    for rid, name in before_nodes.items():
        if nodes[rid] != name:
            raise Violation(f"{clause}:first_strand_changed", f"residue {rid}: {nodes[rid]} was {name}")
    for k in range(1, n + 1):
        want = comp(names[n - k])
        if nodes[n + k] != want:
            raise Violation(f"{clause}:pairing", f"residue {n + k} is {nodes[n + k]}, expected {want} "
                                                 f"(complement of residue {n + 1 - k} {names[n - k]})")
    edges = {frozenset((meta.nodes[u]["resid"] - base, meta.nodes[v]["resid"] - base)): dict(d) for u, v, d in meta.edges(data=True)}
    want_edges = dict(before_edges)
    for pair, attrs in before_edges.items():
        a, b = tuple(pair)
        # residue r of strand one pairs with residue 2n+1-r
        want_edges[frozenset((2 * n + 1 - a, 2 * n + 1 - b))] = dict(attrs)
    if set(edges) != set(want_edges):
        bridging = [sorted(e) for e in edges if min(e) <= n < max(e)]
        raise Violation(f"{clause}:edges", f"missing={sorted(map(sorted, set(want_edges) - set(edges)))[:3]} "
                                           f"extra={sorted(map(sorted, set(edges) - set(want_edges)))[:3]} bridging={bridging[:2]}")
    for pair, attrs in want_edges.items():
        if edges[pair] != attrs:
            raise Violation(f"{clause}:edge_labels", f"edge {sorted(pair)} has {edges[pair]} expected {attrs}")


def check_gen_params(spec, ctx, names):
    """-dsdna through gen_params with a generated DNA force field; the written atoms table must list
    the 2n residues with the complemented names."""
    from pathlib import Path
    from polyply.src.gen_itp import gen_params
    from .itp import read_itp
    if spec["bad"]:
        raise Reject("negative cases are built as graphs")
    all_names = [b + s for b in BASES for s in ("", "5", "3")]
    text = "".join(FF_TEMPLATE.format(name=nm) + "\n" for nm in all_names)
    text += FF_LINKS.format(all="|".join(all_names))
    (ctx.dir / "dna.ff").write_text(text)
    letters = "".join(b[1] for b in spec["bases"])
    off = spec.get("key_offset", 0)
    if off or spec.get("node_order") or spec.get("no_resid"):
        import json
        if spec.get("no_resid"):
            ctx.label("graph_without_resids")
        nn = len(names)
        listing = spec.get("node_order") or list(range(nn))
        if listing != sorted(listing):
            ctx.label("node_records_permuted")
        key = spec.get("idmap") or [i + off for i in range(nn)]
        if spec.get("idmap"):
            ctx.label("arbitrary_node_keys")
        data = {"directed": False, "multigraph": False, "graph": {},
                "nodes": [({"id": key[i], "resname": names[i]} if spec.get("no_resid") else
                           {"id": key[i], "resname": names[i], "resid": i + 1}) for i in listing],
                "edges": [{"source": key[i], "target": key[i + 1]} for i in range(nn - 1)]}
        if spec["circular"]:
            # (the closing link of the test force field asks for this label)
            data["edges"].append({"source": key[0], "target": key[nn - 1], "linktype": "circle"})
        seq_path = ctx.dir / "seq.json"
        seq_path.write_text(json.dumps(data))
        ctx.label("offset_node_keys")
    elif not spec["circular"] and spec["rng"] % 3 == 0:
        # the strand given on the command line (-seq NAME:count ...)
        seq_path = None
        ctx.label("sequence_on_command_line")
    else:
        seq_path = ctx.dir / "seq.ig"
        seq_path.write_text("; DNA\ntitle\n" + letters + ("2" if spec["circular"] else "1") + "\n")
    out = ctx.dir / "out.itp"
    try:
        if seq_path is None:
            gen_params(name="mol", outpath=out, inpath=[ctx.dir / "dna.ff"], seq=[f"{nm}:1" for nm in names], dsdna=True)
        else:
            gen_params(name="mol", outpath=out, inpath=[ctx.dir / "dna.ff"], seq_file=seq_path, dsdna=True)
    except Exception as err:
        raise crash("gen_params_dsdna:crash", err)
    if not out.exists():
        raise Violation("gen_params_dsdna:no_output", "no file")
    mol = read_itp(out.read_text())[0]
    n = len(names)
    resnames = {}
    for atom in mol["atoms"]:
        resnames[atom["resid"]] = atom["resname"]
    want = {i + 1: names[i] for i in range(n)}
    for k in range(1, n + 1):
        want[n + k] = comp(names[n - k])
    if resnames != want:
        diff = [(r, resnames.get(r), want.get(r)) for r in sorted(set(want) | set(resnames)) if resnames.get(r) != want.get(r)]
        raise Violation("gen_params_dsdna:residues", f"{diff[:4]}")
    # backbone bonds: within each strand only
    resid_of = {a["idx"]: a["resid"] for a in mol["atoms"]}
    cross = set()
    for it in mol["inter"].get("bonds", []):
        ra, rb = resid_of[it["atoms"][0]], resid_of[it["atoms"][1]]
        if ra != rb:
            cross.add(frozenset((ra, rb)))
    want_cross = {frozenset((i, i + 1)) for i in range(1, n)} | {frozenset((n + i, n + i + 1)) for i in range(1, n)}
    if spec["circular"]:
        want_cross |= {frozenset((1, n)), frozenset((n + 1, 2 * n))}
    if cross != want_cross:
        raise Violation("gen_params_dsdna:backbone", f"missing={sorted(map(sorted, want_cross - cross))[:3]} "
                                                     f"extra={sorted(map(sorted, cross - want_cross))[:3]}")
    if spec["circular"]:
        ctx.label("circular")
    ctx.nontrivial = n >= 3 and len(set(spec["bases"])) >= 3
