"""C10 - every residue-graph edge is realised by a bond or reported as missing."""
import hypothesis.strategies as st

from . import gp, gpcheck, model as mdl
from .core import Violation

PID = "C10"
LEVEL = "exploration"
RULE = ("gen_params half: Hypothesis-generated force fields in which links exist for only some residue-name "
        "pairs x residue graphs (linear/tree/ring); for every requested residue-graph edge the atom-level "
        "edges of the built molecule between the two residues are recounted from scratch and compared with "
        "the missing-link warnings in the captured log (a residue pair joined by a bond/constraint of the written file may not be reported either; one flavour has no [ link ] but one listing up to four bonds by atom number). gen_coords half: generated topologies with one "
        "molecule whose bonds/constraints/virtual sites leave an atom, a group of atoms or a residue unconnected (must be "
        "refused) or connect everything (must not be refused). non-trivial = a molecule with >=1 realised "
        "and >=1 missing edge (gen_params) or a disconnected molecule (gen_coords); distinct = spec hash")
ASSUMPTIONS = ["log records of the polyply logger hierarchy are the warning channel",
               "an atom-level edge is an edge of the built vermouth molecule graph (bonds, constraints, "
               "angles, dihedrals and [edges] of links make edges)"]
BUDGET = {"quick": (16, 200), "thorough": (16, 5000)}


@st.composite
def _strategy(draw):
    # one case in four: every other link removes an atom (the residue graph and the fragments must follow)
    spec = draw(gp.case(max_res=8, min_res=2, link_bias=True, routes=("json",),
                        removal_bias=draw(st.integers(0, 3)) == 0))
    if len(spec["graph"]["edges"]) >= 2 and draw(st.integers(0, 4)) == 0:
        # a residue graph in two or more parts (two chains in one molecule type): one or two edges are left out
        for _ in range(draw(st.integers(1, 2))):
            if len(spec["graph"]["edges"]) >= 2:
                spec["graph"]["edges"].pop(draw(st.integers(0, len(spec["graph"]["edges"]) - 1)))
        spec["graph"]["kind"] = "parts"
    spec["half"] = "gen_params"
    return spec


@st.composite
def _multires(draw):
    """residue graphs with multi-residue (from_itp) blocks, also consecutive copies of one block:
    the junction between two copies has no link and must be reported"""
    spec = draw(gp.multires_case())
    spec["half"] = "gen_params"
    return spec


@st.composite
def _explicit(draw):
    """no [ link ] but one that lists bonds by atom number: the residue-graph edges it covers are realised,
    every other one is reported"""
    spec = draw(gp.case(max_res=6, min_res=2, with_links=False, routes=("json",), explicit_links="adjacent"))
    spec["half"] = "gen_params"
    return spec


def strategy(tier):
    from . import c10coords
    return st.one_of(_strategy(), _strategy(), _strategy(), _multires(), _explicit(), c10coords.strategy())


def check(spec, ctx):
    if spec.get("half") == "gen_coords":
        from . import c10coords
        return c10coords.check(spec, ctx)
    pre = mdl.expected(spec)
    if pre.invalid:
        from .core import Reject
        raise Reject(pre.invalid)
    run, written = gpcheck.execute(spec, ctx, clause="gen_params")
    molecule = run.captured["molecule"]
    resid_of = {node: molecule.nodes[node]["resid"] for node in molecule.nodes}
    cross = set()
    for u, v in molecule.edges:
        if resid_of[u] != resid_of[v]:
            cross.add(frozenset((resid_of[u], resid_of[v])))
    nodes = {n["id"]: n for n in spec["graph"]["nodes"]}
    requested = {}
    for u, v, _ in spec["graph"]["edges"]:
        requested[frozenset((nodes[u]["resid"], nodes[v]["resid"]))] = (nodes[u], nodes[v])
    warned = {}
    for idx_a, res_a, idx_b, res_b in gpcheck.missing_link_warnings(run):
        key = frozenset((idx_a, idx_b))
        warned[key] = warned.get(key, 0) + 1
        names = {idx_a: res_a, idx_b: res_b}
        if key not in requested:
            raise Violation("warning:not_an_edge", f"warning for residues {sorted(key)} which are not connected "
                                                   f"in the residue graph")
        for nd in requested[key]:
            if names.get(nd["resid"]) != nd["resname"]:
                raise Violation("warning:names", f"warning names {names}, residue {nd['resid']} is {nd['resname']}")
    # the edges R1 expects from blocks and applicable links (where it can tell): an atom-level edge that no
    # applicable link defines does not realise a residue-graph edge
    model_cross = None
    if not pre.undetermined:
        model_cross = set()
        for pair in pre.edges:
            a, b = tuple(pair)
            ra, rb = pre.atoms[a - 1]["resid"], pre.atoms[b - 1]["resid"]
            if ra != rb:
                model_cross.add(frozenset((ra, rb)))
    # what the written file says: residues joined by a written bond or constraint
    wres = {a["idx"]: a["resid"] for a in written["atoms"]}
    written_cross = set()
    for sec in ("bonds", "constraints"):
        for it in written["inter"].get(sec, []):
            if wres[it["atoms"][0]] != wres[it["atoms"][1]]:
                written_cross.add(frozenset((wres[it["atoms"][0]], wres[it["atoms"][1]])))
    n_missing = n_real = 0
    for key in requested:
        if key in written_cross and key in warned:
            raise Violation("both:written_bond", f"residues {sorted(key)} are joined by a bond in the written file "
                                                 f"and reported missing")
        if model_cross is not None and not pre.removed and key in cross and key not in model_cross and key not in warned:
            raise Violation("neither", f"residues {sorted(key)}: not reported missing, and the only atom-level edge between "
                                       f"them is defined by no applicable link")
        if key in cross and key in warned:
            raise Violation("both", f"residues {sorted(key)} are joined by an atom edge and reported missing")
        if key not in cross and key not in warned:
            raise Violation("neither", f"residues {sorted(key)}: no atom-level edge and no missing-link warning")
        if key in cross:
            n_real += 1
        else:
            n_missing += 1
    if n_missing:
        ctx.label("has_missing")
    if n_real:
        ctx.label("has_realised")
    if spec["graph"].get("kind") != "linear":
        ctx.label("shape_" + spec["graph"]["kind"])
    ctx.nontrivial = n_missing >= 1 and n_real >= 1
