"""
R1 - reference model of the molecule gen_params has to produce (DESIGN.md 3).

Works on the case spec only (never on polyply / vermouth objects).

expected(spec) -> Model with
   residues : list of residue dicts in resid order {node, resid, resname, block, first (1-based global index of first atom)}
   atoms    : list of atom dicts in output order {name,type,resid,resname,charge,mass,cgrp_block,res (index),local}
   inter    : dict (sec, atoms(1-based global tuple), version) -> {"params", "guard", "src"}
   edges    : set of frozenset({a, b}) atom-level edges (block edges + link edges)
   matches  : list of applied link matches
   undetermined : bool - the outcome depends on something the statement leaves open
"""
import itertools
from collections import defaultdict

EDGE_SECTIONS_FF = ("bonds", "angles", "dihedrals", "constraints")   # vermouth: make_edges_from_interactions (impropers excluded)


def is_improper(it):
    return it["sec"] == "dihedrals" and it["params"] and it["params"][0] == "2"


def guard_of(meta):
    if meta.get("ifdef"):
        return ("ifdef", meta["ifdef"])
    if meta.get("ifndef"):
        return ("ifndef", meta["ifndef"])
    return None


def split_key(key):
    i = 0
    while i < len(key) and key[i] in "+-<>*":
        i += 1
    prefix, base = key[:i], key[i:]
    if not prefix:
        order = 0
    elif prefix[0] == "+":
        order = len(prefix)
    elif prefix[0] == "-":
        order = -len(prefix)
    else:
        order = prefix
    return order, base


def order_ok(o1, r1, o2, r2):
    """Truth table of the vermouth documentation for relative residue order."""
    def kind(o):
        if isinstance(o, int):
            return "n"
        return "s" if o[0] == "*" else "a"
    k1, k2 = kind(o1), kind(o2)
    if k1 == "n" and k2 == "n":
        return (r2 - r1) == (o2 - o1)
    val = lambda o: 0 if isinstance(o, int) else (len(o) if o[0] == ">" else -len(o))
    if k1 in "na" and k2 in "na":
        if (k1 == "n" and o1 != 0) or (k2 == "n" and o2 != 0):
            return True       # '!' not compared
        d, e = r1 - r2, val(o1) - val(o2)
        return (d > 0) - (d < 0) == (e > 0) - (e < 0)
    if k1 == "s" and k2 == "s":
        return (o1 == o2) == (r1 == r2)
    other = o2 if k1 == "s" else o1
    if isinstance(other, int) and other == 0:
        return r1 != r2
    return True


def sel_match(atom_attrs, sel):
    """Does a molecule atom (dict of attributes) satisfy a link atom selection?"""
    for key, value in sel.items():
        if key in ("order", "charge_group", "replace", "resid"):
            continue
        have = atom_attrs.get(key)
        if isinstance(value, str) and "|" in value:
            if have not in value.split("|"):
                return False
        elif have != value:
            return False
    return True


class Model:
    pass


def block_edges(blk):
    """intra-block atom edges (local indices); which sections make edges depends on the syntax."""
    edges = set()
    n = len(blk["atoms"])
    for it in blk["inter"]:
        if any(a >= n for a in it["atoms"]):
            continue
        if blk["syntax"] == "ff":
            if it["sec"] not in EDGE_SECTIONS_FF or is_improper(it):
                continue
        atoms = it["atoms"]
        for a, b in zip(atoms[:-1], atoms[1:]):
            if a != b:
                edges.add(frozenset((a, b)))
    return edges


def dangling_links(blk):
    """Translate dangling interactions of a polyply .itp block into link specs
    (file-format description: index i -> atom i mod n of residue +(i div n))."""
    n = len(blk["atoms"])
    links = []
    prev = None
    for it in blk["inter"]:
        if not any(a >= n for a in it["atoms"]):
            continue
        keys = ["+" * (a // n) + blk["atoms"][a % n]["name"] for a in it["atoms"]]
        if prev is None or prev != it["atoms"] or True:
            pass
        links.append({"atoms_idx": list(it["atoms"]), "keys": keys, "it": it})
    # polyply groups consecutive interactions with identical atom lists into one link;
    # for the outcome this grouping is irrelevant (each interaction is keyed separately)
    out = []
    for item in links:
        atoms = []
        for a, key in zip(item["atoms_idx"], item["keys"]):
            src = blk["atoms"][a % n]
            atoms.append({"key": key, "attrs": {"resname": src["resname"], "atype": src["type"],
                                                "charge": src["charge"], "mass": src["mass"]}})
        uniq = {}
        for at in atoms:
            uniq[at["key"]] = at
        out.append({"resname": blk["name"], "atoms": list(uniq.values()),
                    "inter": [{"sec": item["it"]["sec"], "atoms": item["keys"],
                               "params": item["it"]["params"], "meta": dict(item["it"]["meta"])}],
                    "edges": [], "non_edges": [], "patterns": [], "dangling": True,
                    "all_edges": True})
    return out


def link_pattern(lnk):
    """orders, residue-level pattern edges {frozenset(o1,o2): linktype or None}, atom-level edges."""
    orders = {}
    for at in lnk["atoms"]:
        orders[at["key"]] = split_key(at["key"])[0]
    atom_edges = {}
    for it in lnk["inter"]:
        if not lnk.get("all_edges"):
            if it["sec"] not in EDGE_SECTIONS_FF or is_improper(it):
                continue
        ks = it["atoms"]
        for a, b in zip(ks[:-1], ks[1:]):
            if a != b:
                atom_edges.setdefault(frozenset((a, b)), {})
    for a, b, attrs in lnk["edges"]:
        atom_edges.setdefault(frozenset((a, b)), {}).update(attrs)
    res_edges = {}
    for pair, attrs in atom_edges.items():
        a, b = tuple(pair)
        oa, ob = orders[a], orders[b]
        if oa == ob:
            continue
        key = frozenset((str(oa), str(ob)))
        lt = attrs.get("linktype")
        if key in res_edges:
            if res_edges[key] != lt:
                res_edges[key] = None     # intersection of differing attributes is empty
        else:
            res_edges[key] = lt
    return orders, res_edges, atom_edges


def all_links(spec):
    """Links in the order polyply holds them: files in input order, .ff links in file order,
    dangling links of an .itp when that file is finalised. Reading a polyply .itp re-tags
    every link read so far: interactions of one section that list the same atoms get the
    versions m, m-1, .., 1 in listed order (a single one gets 1)."""
    import copy
    links = []
    for fil in spec["files"]:
        if fil["kind"] == "ff":
            for i in fil["links"]:
                links.append(dict(copy.deepcopy(spec["links"][i]), index=i))
        else:
            for i in fil["blocks"]:
                links += copy.deepcopy(dangling_links(spec["blocks"][i]))
            for lnk in links:
                groups = defaultdict(list)
                for it in lnk["inter"]:
                    groups[(it["sec"], tuple(it["atoms"]))].append(it)
                for items in groups.values():
                    tag = len(items)
                    for it in items:
                        it["meta"]["version"] = tag
                        tag -= 1
    return links


def expected(spec, with_links=True):
    model = Model()
    blocks = {b["name"]: b for b in spec["blocks"]}
    graph = spec["graph"]
    nodes = sorted(graph["nodes"], key=lambda nd: nd["resid"])
    model.undetermined = False
    model.notes = []
    model.residues = []
    model.atoms = []
    model.inter = {}
    model.edges = set()
    first = 1
    for ridx, nd in enumerate(nodes):
        blk = blocks[nd["resname"]]
        n = len(blk["atoms"])
        res = {"node": nd["id"], "resid": nd["resid"], "resname": nd["resname"], "block": blk,
               "first": first, "natoms": n, "labels": dict(nd.get("attrs", {})), "index": ridx}
        model.residues.append(res)
        for local, atom in enumerate(blk["atoms"]):
            attrs = {"atomname": atom["name"], "atype": atom["type"], "resname": nd["resname"],
                     "charge": atom["charge"], "mass": atom["mass"]}
            attrs.update(res["labels"])
            model.atoms.append({"name": atom["name"], "type": atom["type"], "resid": nd["resid"],
                                "resname": nd["resname"], "charge": atom["charge"], "mass": atom["mass"],
                                "cgrp_block": atom["cgrp"], "res": ridx, "local": local,
                                "sel": attrs})
        for it in blk["inter"]:
            if any(a >= n for a in it["atoms"]):
                continue
            atoms = tuple(first + a for a in it["atoms"])
            version = it["meta"].get("version", 1)
            model.inter[(it["sec"], atoms, version)] = {
                "params": list(it["params"]), "guard": guard_of(it["meta"]), "src": ("block", ridx)}
        for pair in block_edges(blk):
            a, b = tuple(pair)
            model.edges.add(frozenset((first + a, first + b)))
        first += n
    model.block_inter = dict(model.inter)
    model.block_edges = set(model.edges)
    model.matches = []
    model.charge_override = {}
    if not with_links:
        return model

    # residue-level adjacency with edge labels
    node_to_res = {res["node"]: res["index"] for res in model.residues}
    adj = {}
    for u, v, attrs in graph["edges"]:
        a, b = node_to_res[u], node_to_res[v]
        adj[frozenset((a, b))] = attrs.get("linktype")
    nres = len(model.residues)

    pending_nonedge = []
    for li, lnk in enumerate(all_links(spec)):
        orders, res_edges, atom_edges = link_pattern(lnk)
        distinct = []
        for key in orders:
            if orders[key] not in distinct:
                distinct.append(orders[key])
        k = len(distinct)
        if k > nres:
            continue
        for assign in itertools.permutations(range(nres), k):
            amap = dict(zip([str(o) for o in distinct], assign))
            ok = True
            # induced residue pattern with equal edge labels
            for (oa, ob) in itertools.combinations([str(o) for o in distinct], 2):
                pe = frozenset((oa, ob))
                ge = frozenset((amap[oa], amap[ob]))
                if (pe in res_edges) != (ge in adj):
                    ok = False
                    break
                if pe in res_edges and res_edges[pe] != adj[ge]:
                    ok = False
                    break
            if not ok:
                continue
            # relative order
            for (o1, o2) in itertools.combinations(distinct, 2):
                r1 = model.residues[amap[str(o1)]]["resid"]
                r2 = model.residues[amap[str(o2)]]["resid"]
                if not order_ok(o1, r1, o2, r2):
                    ok = False
                    break
            if not ok:
                continue
            # every link atom selects exactly one atom of its residue
            to_atom = {}
            for at in lnk["atoms"]:
                order, base = split_key(at["key"])
                res = model.residues[amap[str(order)]]
                sel = dict(at["attrs"])
                sel.setdefault("resname", lnk["resname"])
                sel["atomname"] = base
                cands = [res["first"] + i for i in range(res["natoms"])
                         if sel_match(model.atoms[res["first"] + i - 1]["sel"], sel)]
                if len(cands) != 1:
                    ok = False
                    break
                to_atom[at["key"]] = cands[0]
            if not ok:
                continue
            # non-edges
            veto = False
            maybe = False
            for src, tgt, attrs in lnk["non_edges"]:
                t_order, t_base = split_key(tgt)
                src_atom = to_atom[src]
                src_resid = model.atoms[src_atom - 1]["resid"]
                sel = dict(attrs)
                sel.setdefault("resname", lnk["resname"])
                sel["atomname"] = t_base
                for idx, atom in enumerate(model.atoms, start=1):
                    if atom["resid"] != src_resid + t_order or idx == src_atom:
                        continue
                    if not sel_match({k_: v for k_, v in atom["sel"].items()
                                      if k_ in ("atomname", "atype", "resname", "charge", "mass")}, sel):
                        continue
                    pair = frozenset((src_atom, idx))
                    if pair in model.block_edges:
                        veto = True
                    else:
                        maybe = True
                        pending_nonedge.append(pair)
            if veto:
                continue
            # patterns
            if lnk["patterns"]:
                hit = False
                for pat in lnk["patterns"]:
                    if all(sel_match(model.atoms[to_atom[key] - 1]["sel"], attrs) for key, attrs in pat):
                        hit = True
                        break
                if not hit:
                    continue
            match = {"link": li, "assign": amap, "atoms": to_atom, "maybe": maybe, "spec": lnk}
            model.matches.append(match)

    # an inter-residue non-edge can only veto when the forbidden edge is made by some link;
    # whether it exists at evaluation time depends on application order -> undetermined
    if pending_nonedge:
        final_edges = set(model.edges)
        for m in model.matches:
            _, _, atom_edges = link_pattern(m["spec"])
            for pair in atom_edges:
                a, b = tuple(pair)
                final_edges.add(frozenset((m["atoms"][a], m["atoms"][b])))
        if any(pair in final_edges for pair in pending_nonedge):
            model.undetermined = True
            model.notes.append("inter-residue non-edge depends on application order")

    # apply the matches in link order
    for m in model.matches:
        lnk = m["spec"]
        for at in lnk["atoms"]:
            rep = at["attrs"].get("replace")
            if rep:
                model.charge_override.setdefault(m["atoms"][at["key"]], []).append((m["link"], rep))
        for it in lnk["inter"]:
            atoms = tuple(m["atoms"][key] for key in it["atoms"])
            version = it["meta"].get("version", 1)
            model.inter[(it["sec"], atoms, version)] = {
                "params": list(it["params"]), "guard": guard_of(it["meta"]), "src": ("link", m["link"])}
        _, _, atom_edges = link_pattern(lnk)
        for pair in atom_edges:
            a, b = tuple(pair)
            model.edges.add(frozenset((m["atoms"][a], m["atoms"][b])))
    return model


def expected_rows(model):
    """section -> list of (canonical atoms, params, guard) as the written file should hold them."""
    from .itp import canon_atoms, canon_param
    rows = defaultdict(list)
    for (sec, atoms, version), val in model.inter.items():
        rows[sec].append((canon_atoms(sec, atoms), tuple(canon_param(p) for p in val["params"]),
                          tuple(val["guard"]) if val["guard"] else None))
    return {sec: sorted(v, key=repr) for sec, v in rows.items()}


def twin_keys(model):
    """keys that have a twin with the same atoms in reversed order (same section and version):
    the statement does not say whether these are 'the same atoms'."""
    twins = set()
    keys = set(model.inter)
    for (sec, atoms, version) in keys:
        if atoms[::-1] != atoms and (sec, atoms[::-1], version) in keys:
            twins.add((sec, atoms, version))
    return twins
