"""
R1 - reference model of the molecule gen_params has to produce (DESIGN.md 3).

Works on the case spec only (never on polyply / vermouth objects).

expected(spec) -> Model with
   residues : list of residue dicts in resid order {node, resid, resname, block, first (1-based global index of first atom)}
   atoms    : list of atom dicts in output order {name,type,resid,resname,charge,mass,cgrp_block,res (index),local}
   inter    : dict (sec, atoms(1-based global tuple), version) -> {"params", "guard", "src"}
   edges    : set of frozenset({a, b}) atom-level edges (block edges + link edges)
   matches  : list of applied link matches
   undetermined : bool - the outcome depends on something the statement leaves open
"""
import itertools
from collections import defaultdict

EDGE_SECTIONS_FF = ("bonds", "angles", "dihedrals", "constraints")   # vermouth: make_edges_from_interactions (impropers excluded)


def is_improper(it):
    return it["sec"] == "dihedrals" and it["params"] and it["params"][0] == "2"


def guard_of(meta):
    if meta.get("ifdef"):
        return ("ifdef", meta["ifdef"])
    if meta.get("ifndef"):
        return ("ifndef", meta["ifndef"])
    return None


def split_key(key):
    i = 0
    while i < len(key) and key[i] in "+-<>*":
        i += 1
    prefix, base = key[:i], key[i:]
    if not prefix:
        order = 0
    elif prefix[0] == "+":
        order = len(prefix)
    elif prefix[0] == "-":
        order = -len(prefix)
    else:
        order = prefix
    return order, base


def order_ok(o1, r1, o2, r2):
    """Truth table of the vermouth documentation for relative residue order."""
    def kind(o):
        if isinstance(o, int):
            return "n"
        return "s" if o[0] == "*" else "a"
    k1, k2 = kind(o1), kind(o2)
    if k1 == "n" and k2 == "n":
        return (r2 - r1) == (o2 - o1)
    val = lambda o: 0 if isinstance(o, int) else (len(o) if o[0] == ">" else -len(o))
    if k1 in "na" and k2 in "na":
        if (k1 == "n" and o1 != 0) or (k2 == "n" and o2 != 0):
            return True       # '!' not compared
        d, e = r1 - r2, val(o1) - val(o2)
        return (d > 0) - (d < 0) == (e > 0) - (e < 0)
    if k1 == "s" and k2 == "s":
        return (o1 == o2) == (r1 == r2)
    other = o2 if k1 == "s" else o1
    if isinstance(other, int) and other == 0:
        return r1 != r2
    return True


def sel_match(atom_attrs, sel):
    """Does a molecule atom (dict of attributes) satisfy a link atom selection?"""
    for key, value in sel.items():
        if key in ("order", "charge_group", "replace", "resid"):
            continue
        have = atom_attrs.get(key)
        if isinstance(value, str) and "|" in value:
            if have not in value.split("|"):
                return False
        elif have != value:
            return False
    return True


class Model:
    pass


def edge_modes(spec):
    """Reading a polyply .itp file makes edges from *every* interaction section for all blocks
    and links read so far (PolyplyParser._make_edges); .ff parsing alone uses bonds, angles,
    proper dihedrals and constraints. Returns ({block index: all?}, {link index: all?})."""
    blocks, links = {}, {}
    files = spec["files"]
    for pos, fil in enumerate(files):
        later_itp = any(f["kind"] == "itp" for f in files[pos:])
        for i in fil["blocks"]:
            blocks[i] = later_itp
        for i in fil.get("links", []):
            links[i] = later_itp
    return blocks, links


def block_edges(blk, all_sections=None):
    """intra-block atom edges (local indices); which sections make edges depends on the syntax."""
    edges = set()
    n = len(blk["atoms"])
    if all_sections is None:
        all_sections = blk["syntax"] == "itp"
    for it in blk["inter"]:
        if any(a >= n for a in it["atoms"]):
            continue
        if not all_sections:
            if it["sec"] not in EDGE_SECTIONS_FF or is_improper(it):
                continue
        atoms = it["atoms"]
        for a, b in zip(atoms[:-1], atoms[1:]):
            if a != b:
                edges.add(frozenset((a, b)))
    return edges


def dangling_links(blk):
    """Translate dangling interactions of a polyply .itp block into link specs
    (file-format description: index i -> atom i mod n of residue +(i div n))."""
    n = len(blk["atoms"])
    links = []
    prev = None
    for it in blk["inter"]:
        if not any(a >= n for a in it["atoms"]):
            continue
        keys = ["+" * (a // n) + blk["atoms"][a % n]["name"] for a in it["atoms"]]
        if prev is None or prev != it["atoms"] or True:
            pass
        links.append({"atoms_idx": list(it["atoms"]), "keys": keys, "it": it})
    # polyply groups consecutive interactions with identical atom lists into one link;
    # for the outcome this grouping is irrelevant (each interaction is keyed separately)
    out = []
    for item in links:
        atoms = []
        for a, key in zip(item["atoms_idx"], item["keys"]):
            src = blk["atoms"][a % n]
            # the atom number inside the block is part of what a dangling term refers to
            atoms.append({"key": key, "attrs": {"resname": src["resname"], "atype": src["type"],
                                                "charge": src["charge"], "mass": src["mass"],
                                                "index": a % n + 1}})
        uniq = {}
        for at in atoms:
            uniq[at["key"]] = at
        out.append({"resname": blk["name"], "atoms": list(uniq.values()),
                    "inter": [{"sec": item["it"]["sec"], "atoms": item["keys"],
                               "params": item["it"]["params"], "meta": dict(item["it"]["meta"])}],
                    "edges": [], "non_edges": [], "patterns": [], "dangling": True,
                    "all_edges": True})
    return out


def link_pattern(lnk):
    """orders, residue-level pattern edges {frozenset(o1,o2): linktype or None}, atom-level edges."""
    orders = {}
    for at in lnk["atoms"]:
        orders[at["key"]] = split_key(at["key"])[0]
    atom_edges = {}
    for it in lnk["inter"]:
        if not lnk.get("all_edges"):
            if it["sec"] not in EDGE_SECTIONS_FF or is_improper(it):
                continue
        if it["meta"].get("edge") is False:
            continue          # flagged as making no edge by itself
        ks = it["atoms"]
        for a, b in zip(ks[:-1], ks[1:]):
            if a != b:
                atom_edges.setdefault(frozenset((a, b)), {})
    for a, b, attrs in lnk["edges"]:
        atom_edges.setdefault(frozenset((a, b)), {}).update(attrs)
    res_edges = {}
    for pair, attrs in atom_edges.items():
        a, b = tuple(pair)
        oa, ob = orders[a], orders[b]
        if oa == ob:
            continue
        key = frozenset((str(oa), str(ob)))
        lt = attrs.get("linktype")
        if key in res_edges:
            if res_edges[key] != lt:
                res_edges[key] = None     # intersection of differing attributes is empty
        else:
            res_edges[key] = lt
    return orders, res_edges, atom_edges


def all_links(spec):
    """Links in the order polyply holds them: files in input order, .ff links in file order,
    dangling links of an .itp when that file is finalised. Reading a polyply .itp re-tags
    every link read so far: interactions of one section that list the same atoms get the
    versions m, m-1, .., 1 in listed order (a single one gets 1)."""
    import copy
    links = []
    for fil in spec["files"]:
        if fil["kind"] == "ff":
            for i in fil["links"]:
                if spec["links"][i].get("molmeta"):
                    # a link that asks for a molecule attribute ([ molmeta ] scfix true ...) which a molecule
                    # built by gen_params never carries: it applies nowhere
                    continue
                links.append(dict(copy.deepcopy(spec["links"][i]), index=i,
                                  all_edges=edge_modes(spec)[1].get(i, False)))
        else:
            for i in fil["blocks"]:
                links += copy.deepcopy(dangling_links(spec["blocks"][i]))
            for lnk in links:
                groups = defaultdict(list)
                for it in lnk["inter"]:
                    groups[(it["sec"], tuple(it["atoms"]))].append(it)
                for items in groups.values():
                    tag = len(items)
                    for it in items:
                        it["meta"]["version"] = tag
                        tag -= 1
    return links


def expected(spec, with_links=True):
    model = Model()
    blocks = {b["name"]: b for b in spec["blocks"]}
    block_mode = {spec["blocks"][i]["name"]: flag for i, flag in edge_modes(spec)[0].items()}
    graph = spec["graph"]
    nodes = sorted(graph["nodes"], key=lambda nd: nd["resid"])
    model.undetermined = False
    model.notes = []
    model.residues = []
    model.atoms = []
    model.inter = {}
    model.edges = set()
    first = 1
    model.invalid = None
    pos = 0
    inst = 0
    while pos < len(nodes):
        nd = nodes[pos]
        from_itp = nd.get("attrs", {}).get("from_itp")
        blk = blocks[from_itp] if from_itp else blocks[nd["resname"]]
        nblk_res = blk.get("multires", 1) if from_itp else 1
        frag = nodes[pos:pos + nblk_res]
        if from_itp and (len(frag) < nblk_res or any(f.get("attrs", {}).get("from_itp") != from_itp for f in frag)):
            model.invalid = "fragment does not cover the multi-residue block"
            return model
        n = len(blk["atoms"])
        blk_base = min(a["resid"] for a in blk["atoms"])
        for j, fn in enumerate(frag):
            local_atoms = [i for i, a in enumerate(blk["atoms"]) if (a["resid"] - blk_base == j or not from_itp)]
            ridx = len(model.residues)
            res = {"node": fn["id"], "resid": fn["resid"], "resname": fn["resname"], "block": blk,
                   "first": first + local_atoms[0], "natoms": len(local_atoms),
                   "labels": dict(fn.get("attrs", {})), "index": ridx, "inst": inst}
            model.residues.append(res)
        for local, atom in enumerate(blk["atoms"]):
            fn = frag[atom["resid"] - blk_base] if from_itp else frag[0]
            ridx = len(model.residues) - len(frag) + (atom["resid"] - blk_base if from_itp else 0)
            # the written atom keeps the residue name of the block's own atoms line; what links select on is the
            # residue name of the residue-graph node (for multi-residue blocks: of the block's atoms)
            sel_resname = atom["resname"] if from_itp else fn["resname"]
            resname = atom["resname"]
            attrs = {"atomname": atom["name"], "atype": atom["type"], "resname": sel_resname,
                     "charge": atom["charge"], "mass": atom["mass"], "index": local + 1}
            attrs.update(fn.get("attrs", {}))
            model.atoms.append({"name": atom["name"], "type": atom["type"], "resid": fn["resid"],
                                "resname": resname, "charge": atom["charge"], "mass": atom["mass"],
                                "cgrp_block": atom["cgrp"], "res": ridx, "local": local, "inst": inst,
                                "sel": attrs})
        for it in blk["inter"]:
            if any(a >= n for a in it["atoms"]):
                continue
            atoms = tuple(first + a for a in it["atoms"])
            version = it["meta"].get("version", 1)
            model.inter[(it["sec"], atoms, version)] = {
                "params": list(it["params"]), "guard": guard_of(it["meta"]), "src": ("block", inst)}
        for pair in block_edges(blk, block_mode.get(blk["name"])):
            a, b = tuple(pair)
            model.edges.add(frozenset((first + a, first + b)))
        first += n
        pos += len(frag)
        inst += 1
    model.block_inter = dict(model.inter)
    model.block_edges = set(model.edges)
    model.matches = []
    model.charge_override = {}
    model.extra_inter = []
    model.removed = set()
    model.n_removed = 0
    if not with_links:
        return model

    # residue-level adjacency with edge labels
    node_to_res = {res["node"]: res["index"] for res in model.residues}
    adj = {}
    for u, v, attrs in graph["edges"]:
        a, b = node_to_res[u], node_to_res[v]
        adj[frozenset((a, b))] = attrs.get("linktype")
    nres = len(model.residues)

    pending_nonedge = []
    for li, lnk in enumerate(all_links(spec)):
        orders, res_edges, atom_edges = link_pattern(lnk)
        distinct = []
        for key in orders:
            if orders[key] not in distinct:
                distinct.append(orders[key])
        k = len(distinct)
        if k > nres:
            continue
        for assign in itertools.permutations(range(nres), k):
            amap = dict(zip([str(o) for o in distinct], assign))
            ok = True
            # induced residue pattern with equal edge labels
            for (oa, ob) in itertools.combinations([str(o) for o in distinct], 2):
                pe = frozenset((oa, ob))
                ge = frozenset((amap[oa], amap[ob]))
                if (pe in res_edges) != (ge in adj):
                    ok = False
                    break
                if pe in res_edges and res_edges[pe] != adj[ge]:
                    ok = False
                    break
            if not ok:
                continue
            # relative order
            for (o1, o2) in itertools.combinations(distinct, 2):
                r1 = model.residues[amap[str(o1)]]["resid"]
                r2 = model.residues[amap[str(o2)]]["resid"]
                if not order_ok(o1, r1, o2, r2):
                    ok = False
                    break
            if not ok:
                continue
            # every link atom selects exactly one atom of its residue
            to_atom = {}
            for at in lnk["atoms"]:
                order, base = split_key(at["key"])
                res = model.residues[amap[str(order)]]
                sel = dict(at["attrs"])
                if lnk["resname"] is not None:
                    sel.setdefault("resname", lnk["resname"])
                sel["atomname"] = base
                cands = [res["first"] + i for i in range(res["natoms"])
                         if sel_match(model.atoms[res["first"] + i - 1]["sel"], sel)]
                if len(cands) != 1:
                    ok = False
                    break
                to_atom[at["key"]] = cands[0]
            if not ok:
                continue
            # non-edges
            veto = False
            maybe = False
            for src, tgt, attrs in lnk["non_edges"]:
                t_order, t_base = split_key(tgt)
                src_atom = to_atom[src]
                src_resid = model.atoms[src_atom - 1]["resid"]
                sel = dict(attrs)
                if lnk["resname"] is not None:
                    sel.setdefault("resname", lnk["resname"])
                sel["atomname"] = t_base
                for idx, atom in enumerate(model.atoms, start=1):
                    if atom["resid"] != src_resid + t_order or idx == src_atom:
                        continue
                    if not sel_match({k_: v for k_, v in atom["sel"].items()
                                      if k_ in ("atomname", "atype", "resname", "charge", "mass")}, sel):
                        continue
                    pair = frozenset((src_atom, idx))
                    if pair in model.block_edges:
                        veto = True
                    else:
                        maybe = True
                        pending_nonedge.append(pair)
            if veto:
                continue
            # patterns
            if lnk["patterns"]:
                hit = False
                for pat in lnk["patterns"]:
                    if all(sel_match(model.atoms[to_atom[key] - 1]["sel"], attrs) for key, attrs in pat):
                        hit = True
                        break
                if not hit:
                    continue
            match = {"link": li, "assign": amap, "atoms": to_atom, "maybe": maybe, "spec": lnk}
            model.matches.append(match)

    # an inter-residue non-edge can only veto when the forbidden edge is made by some link;
    # whether it exists at evaluation time depends on application order -> undetermined
    if pending_nonedge:
        final_edges = set(model.edges)
        for m in model.matches:
            _, _, atom_edges = link_pattern(m["spec"])
            for pair in atom_edges:
                a, b = tuple(pair)
                final_edges.add(frozenset((m["atoms"][a], m["atoms"][b])))
        if any(pair in final_edges for pair in pending_nonedge):
            model.undetermined = True
            model.notes.append("inter-residue non-edge depends on application order")

    # apply the matches in link order
    for m in model.matches:
        lnk = m["spec"]
        for at in lnk["atoms"]:
            rep = at["attrs"].get("replace")
            if rep and "atomname" in rep and rep["atomname"] is None:
                model.removed.add(m["atoms"][at["key"]])
            elif rep:
                if rep.get("atomname"):
                    # renamed: later selections by name (modifications) see the new name
                    model.atoms[m["atoms"][at["key"]] - 1]["name"] = rep["atomname"]
                    model.renamed = getattr(model, "renamed", 0) + 1
                model.charge_override.setdefault(m["atoms"][at["key"]], []).append((m["link"], rep))
        for it in lnk["inter"]:
            atoms = tuple(m["atoms"][key] for key in it["atoms"])
            version = it["meta"].get("version", 1)
            key = (it["sec"], atoms, version)
            value = {"params": list(it["params"]), "guard": guard_of(it["meta"]), "src": ("link", m["link"])}
            prev = model.inter.get(key)
            if prev is not None and prev["src"] == value["src"] and \
                    (prev["params"], prev["guard"]) != (value["params"], value["guard"]):
                # two matches of one link write different values to the same atoms: the
                # statement orders links, not the matches of a single link
                model.undetermined = True
                model.notes.append("one link writes two values to the same atoms")
            model.inter[key] = value
        _, _, atom_edges = link_pattern(lnk)
        for pair in atom_edges:
            a, b = tuple(pair)
            model.edges.add(frozenset((m["atoms"][a], m["atoms"][b])))
    remove_atoms(model)
    if model.invalid:
        return model
    if spec.get("explicit"):
        if model.removed:
            model.invalid = "explicit (by_atom_id) links together with atom removal: numbering not defined"
            return model
        for it in spec["explicit"]:
            # added on exactly the numbered atoms, with an edge between consecutive atoms
            model.extra_inter.append((it["sec"], tuple(it["atoms"]), list(it["params"]), None))
            for a, b in zip(it["atoms"][:-1], it["atoms"][1:]):
                model.edges.add(frozenset((a, b)))
    apply_mods(spec, model)
    return model


def remove_atoms(model):
    """Atoms scheduled for removal by an applied link (replace atomname null) disappear after all
    links were applied, together with every interaction and edge that involves them."""
    if not model.removed:
        return
    keep = [i for i in range(1, len(model.atoms) + 1) if i not in model.removed]
    renum = {old: new for new, old in enumerate(keep, start=1)}
    model.atoms = [model.atoms[i - 1] for i in keep]
    model.inter = {(sec, tuple(renum[a] for a in atoms), ver): val
                   for (sec, atoms, ver), val in model.inter.items()
                   if not any(a in model.removed for a in atoms)}
    model.edges = {frozenset(renum[a] for a in e) for e in model.edges if not (e & model.removed)}
    model.block_edges = {frozenset(renum[a] for a in e) for e in model.block_edges if not (e & model.removed)}
    model.charge_override = {renum[a]: v for a, v in model.charge_override.items() if a not in model.removed}
    for res in model.residues:
        mine = [i for i in range(res["first"], res["first"] + res["natoms"]) if i not in model.removed]
        res["natoms"] = len(mine)
        res["first"] = renum[mine[0]] if mine else None
        if not mine:
            model.invalid = "a residue loses all of its atoms (outside the domain: empty residues)"
    model.n_removed = len(model.removed)


PROTEIN_RESNAMES = ("GLY|ALA|CYS|VAL|LEU|ILE|MET|PRO|HYP|ASN|GLN|ASP|ASP0|GLU|GLU0|THR|SER|LYS|LYS0|"
                    "ARG|ARG0|HIS|HISH|PHE|TYR|TRP").split("|")


def apply_mods(spec, model):
    """Terminal / requested modifications: only the named atoms of the target residue change;
    the modification's interactions are added on those atoms."""
    model.mods_applied = 0
    model.extra_inter = list(getattr(model, "extra_inter", []))
    mods = {m["name"]: m for m in spec.get("mods", [])}
    if not mods:
        return
    targets = []
    if spec.get("mods_cli"):
        import re
        for resspec, name in spec["mods_cli"]:
            m = re.match(r"^(.*?)(\d+)$", resspec)
            targets.append((int(m.group(2)), name))
    else:
        resids = [r["resid"] for r in model.residues]
        targets = [(min(resids), "N-ter"), (max(resids), "C-ter")]
    for resid, name in targets:
        mod = mods[name]
        res = [r for r in model.residues if r["resid"] == resid]
        if not res:
            model.invalid = "modification target does not exist"
            return
        res = res[0]
        if res["resname"] not in PROTEIN_RESNAMES:
            continue
        local = {}
        for i in range(res["natoms"]):
            idx = res["first"] + i
            local[model.atoms[idx - 1]["name"]] = idx
        for at in mod["atoms"]:
            if at["name"] in local:
                atom = model.atoms[local[at["name"]] - 1]
                rep = at.get("replace") or {}
                if "atype" in rep:
                    atom["type"] = rep["atype"]
                if "charge" in rep:
                    atom["charge"] = rep["charge"]
                    model.charge_override.pop(local[at["name"]], None)
        for it in mod["inter"]:
            if any(a not in local for a in it["atoms"]):
                model.invalid = "modification interaction names an atom the residue lacks"
                return
            model.extra_inter.append((it["sec"], tuple(local[a] for a in it["atoms"]), list(it["params"]),
                                      guard_of(it.get("meta", {}))))
        model.mods_applied += 1


def expected_rows(model):
    """section -> list of (canonical atoms, params, guard) as the written file should hold them."""
    from .itp import canon_atoms, canon_param
    rows = defaultdict(list)
    for (sec, atoms, version), val in model.inter.items():
        rows[sec].append((canon_atoms(sec, atoms), tuple(canon_param(p) for p in val["params"]),
                          tuple(val["guard"]) if val["guard"] else None))
    for sec, atoms, params, guard in getattr(model, "extra_inter", []):
        rows[sec].append((canon_atoms(sec, atoms), tuple(canon_param(p) for p in params),
                          tuple(guard) if guard else None))
    return {sec: sorted(v, key=repr) for sec, v in rows.items()}


def twin_keys(model):
    """keys that have a twin with the same atoms in reversed order (same section and version):
    the statement does not say whether these are 'the same atoms'."""
    twins = set()
    keys = set(model.inter)
    for (sec, atoms, version) in keys:
        if atoms[::-1] != atoms and (sec, atoms[::-1], version) in keys:
            twins.add((sec, atoms, version))
    return twins
