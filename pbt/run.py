"""CLI: python -m pbt.run <ID> [--tier quick|thorough] [--replay FILE]"""
import os
import sys
import argparse


def main():
    parser = argparse.ArgumentParser()
    parser.add_argument("pid")
    parser.add_argument("--tier", default=os.environ.get("VERIF_TIER", "quick"), choices=["quick", "thorough"])
    parser.add_argument("--replay", default=None)
    args = parser.parse_args()
    try:
        seed = int(os.environ.get("VERIF_SEED", "1"))
    except ValueError:
        seed = 1
    try:
        from pbt import core
        rc = core.run_property(f"pbt.{args.pid.lower()}", args.tier, seed, replay=args.replay)
    except SystemExit:
        raise
    except BaseException as err:  # harness error: exit 2, never a violation
        import traceback
        traceback.print_exc()
        print(f"HARNESS ERROR: {type(err).__name__}: {err}", file=sys.stderr)
        rc = 2
    sys.stdout.flush()
    sys.exit(rc)


if __name__ == "__main__":
    main()
