"""
gen_coords family: system spec strategies, renderers and the driver (DESIGN.md 4/C03-C07, C15, C18).

System spec (plain JSON data):
 {"rng": int, "comb": 1|2,
  "atomtypes": [{"name","mass","sigma","eps"}],
  "moltypes":  [{"name", "residues": [{"resname", "atoms": [{"name","type","mass"|None}],
                                        "bonds": [[i,j,len]], "vs": None|{"kind":"2","atoms":[...],"params":[..]}}],
                 "res_edges": [[r1, r2]]}],          # residue graph over residue indices (0-based), resid = index+1
  "molecules": [[name, count], ...],
  "opts": {...gen_coords keyword options as plain data...},
  "coords": None | {"mode": "c"|"mc", "nres": int (prefix of the residue stream that is supplied), "box": [..]},
  "build": None | [lines of a build file]}
"""
import math
import signal
from pathlib import Path

import numpy as np
import hypothesis.strategies as st

from .core import Inconclusive
from .itp import read_gro

TYPE_NAMES = ["TA", "TB", "TC", "TD"]
RESNAMES = ["RA", "RB", "RC", "RD", "RE"]


@st.composite
def residue(draw, resname, types, max_atoms=4, allow_vs=True, prefix=None):
    n = draw(st.integers(1, max_atoms))
    prefix = prefix or resname[1].lower()
    atoms = [{"name": f"{prefix}{i + 1}", "type": draw(st.sampled_from(types)),
              "mass": draw(st.sampled_from([None, 36.0, 72.0]))} for i in range(n)]
    bonds = []
    for i in range(1, n):
        bonds.append([draw(st.integers(0, i - 1)), i, draw(st.sampled_from([0.25, 0.3, 0.35]))])
    vs = None
    if allow_vs and n >= 2 and draw(st.integers(0, 5)) == 0:
        # an extra virtual site constructed from the first two atoms
        atoms.append({"name": f"{prefix}v", "type": draw(st.sampled_from(types)), "mass": 0.0})
        vs = {"kind": "2", "atoms": [n, 0, 1], "params": ["1", str(draw(st.sampled_from([0.3, 0.5, 0.7])))]}
        if draw(st.integers(0, 2)) == 0:
            # [ virtual_sitesn ], centre of geometry of one or two atoms ("site funct from ...")
            vs = {"kind": "n", "atoms": [n, 0, 1][:draw(st.integers(2, 3))], "params": ["1"]}
        elif n >= 3 and draw(st.integers(0, 2)) == 0:
            # a site whose construction does not scale linearly with its defining atoms: [ virtual_sites3 ] with a
            # fixed distance (function 2) or an out-of-plane term (function 4)
            if draw(st.booleans()):
                vs = {"kind": "3fd", "atoms": [n, 0, 1, 2], "params": ["2", "0.5", str(draw(st.sampled_from([0.15, 0.25])))]}
            else:
                vs = {"kind": "3out", "atoms": [n, 0, 1, 2], "params": ["4", "0.3", "0.3", str(draw(st.sampled_from([0.5, -1.0])))]}
    return {"resname": resname, "atoms": atoms, "bonds": bonds, "vs": vs}


@st.composite
def moltype(draw, name, resdefs, max_res=8, shapes=("linear", "linear", "branched", "ring"), min_res=1):
    nres = draw(st.integers(min_res, max_res))
    shape = draw(st.sampled_from(shapes)) if nres >= 3 else "linear"
    residues = [draw(st.sampled_from(resdefs)) for _ in range(nres)]
    if shape == "linear":
        edges = [[i, i + 1] for i in range(nres - 1)]
    elif shape == "branched":
        edges = [[draw(st.integers(max(0, i - 3), i - 1)), i] for i in range(1, nres)]
    else:
        edges = [[i, i + 1] for i in range(nres - 1)] + [[nres - 1, 0]]
    # the exclusion distance of the molecule type is an atom-level quantity; residue building does not depend on it
    return {"name": name, "residues": residues, "res_edges": edges, "shape": shape,
            "nrexcl": draw(st.sampled_from([1, 1, 2, 3]))}


@st.composite
def system(draw, max_moltypes=3, max_res=8, max_total_mol=6, allow_vs=True, single_atom_ok=True,
           min_res=1, shapes=("linear", "linear", "branched", "ring"), variants=False):
    ntypes = draw(st.integers(2, 4))
    comb = draw(st.sampled_from([1, 2]))
    atomtypes = [{"name": TYPE_NAMES[i], "mass": draw(st.sampled_from([36.0, 45.0, 72.0])),
                  "sigma": draw(st.sampled_from([0.2, 0.3, 0.43, 0.47, 0.6])),
                  "eps": draw(st.sampled_from([0.5, 2.0, 4.5]))} for i in range(ntypes)]
    types = [a["name"] for a in atomtypes]
    nresdef = draw(st.integers(1, 4))
    # residue names that readers may treat specially (water) are ordinary names for polyply
    pool = list(RESNAMES)
    if draw(st.integers(0, 4)) == 0:
        pool[draw(st.integers(0, nresdef - 1))] = "SOL"
    resdefs = [draw(residue(pool[i], types, allow_vs=allow_vs)) for i in range(nresdef)]
    if variants and draw(st.integers(0, 2)) == 0:
        # a second residue with the name of an existing one but other atoms (e.g. an end group that keeps the
        # name of the repeat unit): same name, another template and size
        base = draw(st.sampled_from(resdefs))
        resdefs.append(draw(residue(base["resname"], types, allow_vs=False, prefix="x")))
    nmt = draw(st.integers(1, max_moltypes))
    moltypes = [draw(moltype(f"M{chr(65 + i)}", resdefs, max_res=max_res, min_res=min_res, shapes=shapes))
                for i in range(nmt)]
    molecules = []
    total = 0
    for _ in range(draw(st.integers(1, 4))):
        cnt = draw(st.integers(1, 3))
        if total + cnt > max_total_mol:
            break
        molecules.append([draw(st.sampled_from(moltypes))["name"], cnt])
        total += cnt
    if not molecules:
        molecules = [[moltypes[0]["name"], 1]]
    return {"rng": draw(st.integers(0, 2**31 - 1)), "comb": comb, "atomtypes": atomtypes,
            "moltypes": moltypes, "molecules": molecules, "opts": {}, "coords": None, "build": None}


# ----------------------------------------------------------------------------
def fmt(x):
    return repr(float(x))


def render_top(spec, include=None):
    lines = ["[ defaults ]", f"1 {spec['comb']} no 1.0 1.0", "[ atomtypes ]"]
    for at in spec["atomtypes"]:
        if spec["comb"] == 1:
            nb1 = 4 * at["eps"] * at["sigma"] ** 6
            nb2 = 4 * at["eps"] * at["sigma"] ** 12
        else:
            nb1, nb2 = at["sigma"], at["eps"]
        if spec.get("stale_atomtype") == at["name"]:
            # an earlier definition of the same type with another mass: the later line is the one in force
            lines.append(f"{at['name']} {fmt(at['mass'] + 29.0)} 0.0 A {nb1!r} {nb2!r}")
        lines.append(f"{at['name']} {fmt(at['mass'])} 0.0 A {nb1!r} {nb2!r}")
    if include is not None:
        lines.append(f'#include "{include}"')
    else:
        for mt in spec["moltypes"]:
            lines += render_moltype(mt)
    lines += ["[ system ]", "generated", "[ molecules ]"]
    for name, cnt in spec["molecules"]:
        lines.append(f"{name} {cnt}")
    return "\n".join(lines) + "\n"


def moltype_atoms(mt):
    """flat atom list [(global idx 1-based, resid, resname, atom dict)] and first index per residue"""
    out = []
    first = []
    idx = 1
    resids = mt.get("resids") or [r + 1 for r in range(len(mt["residues"]))]
    for r, res in enumerate(mt["residues"]):
        first.append(idx)
        for at in res["atoms"]:
            out.append((idx, resids[r], res["resname"], at))
            idx += 1
    return out, first


def render_moltype(mt):
    lines = ["[ moleculetype ]", f"{mt['name']} {mt.get('nrexcl', 1)}", "[ atoms ]"]
    atoms, first = moltype_atoms(mt)
    for idx, resid, resname, at in atoms:
        mass = "" if at["mass"] is None else " " + fmt(at["mass"])
        lines.append(f"{idx} {at['type']} {resid} {resname} {at['name']} {idx} 0.0{mass}")
    bonds = []
    vs2 = []
    vsn = []
    vs3 = []
    for r, res in enumerate(mt["residues"]):
        for i, j, length in res["bonds"]:
            bonds.append(f"{first[r] + i} {first[r] + j} 1 {length} 1000")
        if res["vs"] and res["vs"]["kind"] == "n":
            a = [first[r] + k for k in res["vs"]["atoms"]]
            vsn.append(f"{a[0]} {res['vs']['params'][0]} " + " ".join(map(str, a[1:])))
        elif res["vs"] and res["vs"]["kind"] in ("3fd", "3out"):
            a = [first[r] + k for k in res["vs"]["atoms"]]
            vs3.append(" ".join(map(str, a)) + " " + " ".join(res["vs"]["params"]))
        elif res["vs"]:
            a = [first[r] + k for k in res["vs"]["atoms"]]
            vs2.append(" ".join(map(str, a)) + " " + " ".join(res["vs"]["params"]))
    angles = []
    for r1, r2 in mt.get("angle_only_edges", []):
        # the two residues share an angle (or nothing else): no bond, constraint or virtual site joins them
        third = first[r2] + 1 if len(mt["residues"][r2]["atoms"]) > 1 else first[r1] + 1
        angles.append(f"{first[r1]} {first[r2]} {third} 1 120.0 50.0")
    vs_only = {frozenset(e) for e in mt.get("vs_only_edges", [])}
    for r1, r2 in mt["res_edges"]:
        if frozenset((r1, r2)) in vs_only:
            # the two residues are tied together by a virtual-site construction only: the first atom of the
            # second residue is a site built from the first two atoms of the first residue (no bond, no constraint)
            vs2.append(f"{first[r2]} {first[r1]} {first[r1] + 1} 1 0.5")
            continue
        # which atoms carry the inter-residue bond: the first ones unless the molecule type says otherwise
        i, j = (mt.get("edge_atoms") or {}).get(f"{r1}-{r2}", (0, 0))
        bonds.append(f"{first[r1] + i} {first[r2] + j} 1 0.35 1000")
    if bonds:
        lines.append("[ bonds ]")
        lines += bonds
    if angles:
        lines.append("[ angles ]")
        lines += angles
    if vs2:
        lines.append("[ virtual_sites2 ]")
        lines += vs2
    if vs3:
        lines.append("[ virtual_sites3 ]")
        lines += vs3
    if vsn:
        lines.append("[ virtual_sitesn ]")
        lines += vsn
    return lines


def expanded_atoms(spec):
    """the atoms of the expanded [molecules] section: [(resid, resname, atomname, mol index, residue index)]"""
    by_name = {mt["name"]: mt for mt in spec["moltypes"]}
    out = []
    mol_idx = 0
    for name, cnt in spec["molecules"]:
        for _ in range(cnt):
            mt = by_name[name]
            resids = mt.get("resids") or [r + 1 for r in range(len(mt["residues"]))]
            for r, res in enumerate(mt["residues"]):
                for at in res["atoms"]:
                    out.append((resids[r], res["resname"], at["name"], mol_idx, r))
            mol_idx += 1
    return out


def total_mass(spec):
    by_name = {mt["name"]: mt for mt in spec["moltypes"]}
    tmass = {a["name"]: a["mass"] for a in spec["atomtypes"]}
    total = 0.0
    for name, cnt in spec["molecules"]:
        for res in by_name[name]["residues"]:
            for at in res["atoms"]:
                total += cnt * (at["mass"] if at["mass"] is not None else tmass[at["type"]])
    return total


def write_gro(path, atoms, box, title="supplied", restart=None):
    """atoms: list of (resid, resname, name, xyz); restart=k: the atom-number column starts again at 1 every k
    atoms (several single-molecule files pasted together) - the column carries no meaning for a reader"""
    lines = [title, str(len(atoms))]
    for i, (resid, resname, name, xyz) in enumerate(atoms, start=1):
        if restart:
            i = (i - 1) % restart + 1
        lines.append(f"{resid % 100000:5d}{resname[:5]:<5s}{name[:5]:>5s}{i % 100000:5d}{xyz[0]:8.3f}{xyz[1]:8.3f}{xyz[2]:8.3f}")
    lines.append(" ".join(f"{b:.5f}" for b in box))
    Path(path).write_text("\n".join(lines) + "\n")


def write_pdb(path, atoms, box=None, title="supplied"):
    """atoms: list of (resid, resname, name, xyz in nm); a CRYST1 record only when a box is given"""
    lines = [f"TITLE     {title}"]
    if box is not None:
        lines.append(f"CRYST1{box[0] * 10:9.3f}{box[1] * 10:9.3f}{box[2] * 10:9.3f}{90:7.2f}{90:7.2f}{90:7.2f} P 1           1")
    lines.append("MODEL        1")
    for i, (resid, resname, name, xyz) in enumerate(atoms, start=1):
        lines.append(f"ATOM  {i % 100000:5d} {name[:4]:<4s} {resname[:4]:<4s}A{resid % 10000:4d}    "
                     f"{xyz[0] * 10:8.3f}{xyz[1] * 10:8.3f}{xyz[2] * 10:8.3f}  1.00  0.00")
    lines += ["TER", "ENDMDL", "END"]
    Path(path).write_text("\n".join(lines) + "\n")


def refused_outside_box(exc, spec=None):
    """the periodic neighbour search refuses coordinates that lie beyond the box of the structure they came with
    (scipy: 'Some input data are greater than the size of the periodic box'): an input outside the domain -
    only when the generated structure itself holds such a coordinate"""
    if not (isinstance(exc, ValueError) and "greater than the size of the periodic box" in str(exc)):
        return False
    coords = (spec or {}).get("coords")
    if not coords:
        return False
    box = coords["box"] if coords.get("cryst", True) else ((spec.get("opts") or {}).get("box") or coords["box"])
    return any(a[3][i] >= box[i] for a in coords["atoms"] for i in range(3))


class Result:
    def __init__(self):
        self.exc = None
        self.gro = None
        self.gro_text = None
        self.topology = None
        self.events = []          # engine add/remove events
        self.after_build = None   # residue positions per molecule after BuildSystem
        self.engine = None
        self.build_system = None
        self.stage = None


class _Timeout(BaseException):
    pass


def _alarm(signum, frame):
    raise _Timeout()


def run_gen_coords(spec, ctx, timeout=15, kwargs_extra=None, before_build=None, on_add=None):
    """Runs polyply.src.gen_coords.gen_coords on the rendered spec inside ctx.dir with
    run-time wrappers that record what the properties need."""
    import polyply.src.gen_coords as gcm
    from polyply.src.build_system import BuildSystem
    from polyply.src.nonbond_engine import NonBondEngine
    from polyply.src.generate_templates import GenerateTemplates
    from polyply.src.backmap import Backmap
    top = ctx.dir / "system.top"
    if spec.get("include_layout"):
        # the molecule types live in a file of their own that the .top file includes; with "primed" another version
        # of that file (other residue and atom names) was read from the same path earlier in this process
        inc = ctx.dir / "mols.itp"
        top.write_text(render_top(spec, include="mols.itp"))
        if spec.get("primed"):
            import copy
            from polyply.src.topology import Topology
            decoy = copy.deepcopy(spec["moltypes"])
            for mt in decoy:
                for r in mt["residues"]:
                    r["resname"] = "Q" + r["resname"][1:]
                    r["atoms"] = [dict(a, name="q" + a["name"][1:]) for a in r["atoms"]]
            inc.write_text("\n".join(l for mt in decoy for l in render_moltype(mt)) + "\n")
            try:
                Topology.from_gmx_topfile(name="earlier", path=top)
            except Exception:
                pass
        inc.write_text("\n".join(l for mt in spec["moltypes"] for l in render_moltype(mt)) + "\n")
    else:
        top.write_text(render_top(spec))
    opts = dict(spec.get("opts", {}))
    kwargs = {"toppath": top, "outpath": ctx.dir / "out.gro", "name": "test"}
    if opts.get("box") is not None:
        kwargs["box"] = np.array(opts["box"], dtype=float)
    if opts.get("density") is not None:
        kwargs["density"] = float(opts["density"])
    for key in ("grid_spacing", "step_fudge", "max_force", "nrewind", "maxiter", "maxiter_random", "bfudge",
                "cycle_tol", "skip_filter"):
        if key in opts:
            kwargs[key] = opts[key]
    for key in ("build_res", "ignore", "cycles", "split", "start"):
        if key in opts:
            kwargs[key] = list(opts[key])
    if "ligands" in opts:
        kwargs["ligands"] = [tuple(l) for l in opts["ligands"]]
    if opts.get("grid") is not None:
        gpath = ctx.dir / "grid.dat"
        np.savetxt(gpath, np.array(opts["grid"], dtype=float))
        kwargs["grid"] = gpath
    if spec.get("build"):
        bpath = ctx.dir / "build.bld"
        bpath.write_text("\n".join(spec["build"]) + "\n")
        kwargs["build"] = [bpath]
        # -b takes several files: one time in three the top-level sections ([ molecule ], [ template ], [ volumes ],
        # [ bending ], each with what follows it) are dealt out over two or three files, in their order
        groups = []
        for line in spec["build"]:
            head = line.replace(" ", "")
            if head in ("[molecule]", "[template]", "[volumes]", "[bending]") or not groups:
                groups.append([])
            groups[-1].append(line)
        nfiles = (2, 3)[spec.get("rng", 0) % 2]
        if spec.get("rng", 0) % 3 == 0 and len(groups) >= 2:
            nfiles = min(nfiles, len(groups))
            cuts = [round(k * len(groups) / nfiles) for k in range(nfiles + 1)]
            kwargs["build"] = []
            for k in range(nfiles):
                part = ctx.dir / f"build_part{k}.bld"
                part.write_text("\n".join(l for g in groups[cuts[k]:cuts[k + 1]] for l in g) + "\n")
                kwargs["build"].append(part)
            if hasattr(ctx, "label"):
                ctx.label("several_build_files")
    coords = spec.get("coords")
    if coords:
        if coords.get("format") == "pdb":
            cpath = ctx.dir / "input.pdb"
            write_pdb(cpath, [tuple(a) for a in coords["atoms"]], coords["box"] if coords.get("cryst", True) else None)
        else:
            cpath = ctx.dir / "input.gro"
            write_gro(cpath, [tuple(a) for a in coords["atoms"]], coords["box"], restart=coords.get("restart"))
        if coords.get("primed") and coords.get("format") != "pdb":
            # the same path held another structure (shifted, one atom fewer) that was loaded earlier in this process
            from polyply.src.topology import Topology
            real = cpath.read_text()
            decoy = [(a[0], a[1], a[2], [x + 0.37 for x in a[3]]) for a in coords["atoms"]][:max(1, len(coords["atoms"]) - 1)]
            write_gro(cpath, decoy, coords["box"])
            try:
                early = Topology.from_gmx_topfile(name="earlier", path=top)
                early.preprocess()
                early.add_positions_from_file(cpath, skip_res=opts.get("build_res", []),
                                              resolution="mol" if coords["mode"] == "c" else "meta_mol")
            except Exception:
                pass
            cpath.write_text(real)
        if coords["mode"] == "c":
            kwargs["coordpath"] = cpath
        else:
            kwargs["coordpath_meta"] = cpath
            if coords.get("also_atoms"):
                # -c and -mc together: atom positions and residue centres for the same residues
                apath = ctx.dir / "input_atoms.gro"
                write_gro(apath, [tuple(a) for a in coords["also_atoms"]], coords["box"])
                kwargs["coordpath"] = apath
    if kwargs_extra:
        kwargs.update(kwargs_extra)

    res = Result()
    orig_run_system = BuildSystem.run_system
    orig_add = NonBondEngine.add_positions
    orig_remove = NonBondEngine.remove_positions
    orig_templates = GenerateTemplates.run_system
    orig_backmap = Backmap.run_system

    def wrapped_templates(self, system):
        res.topology = system
        res.stage = "templates"
        return orig_templates(self, system)

    def wrapped_run_system(self, molecules):
        res.build_system = self
        res.stage = "build"
        if before_build:
            before_build(self, res)
        out = orig_run_system(self, molecules)
        res.engine = self.nonbond_matrix
        res.after_build = [{node: np.array(mol.nodes[node]["position"], dtype=float).copy()
                            for node in mol.nodes if "position" in mol.nodes[node]}
                           for mol in self.topology.molecules]
        res.stage = "built"
        return out

    def wrapped_add(self, point, mol_idx, node_key, start=True):
        res.events.append(("add", mol_idx, node_key, bool(start), np.array(point, dtype=float).copy(), self))
        if on_add:
            on_add(self, np.array(point, dtype=float), mol_idx, node_key, bool(start), res)
        return orig_add(self, point, mol_idx, node_key, start=start)

    def wrapped_remove(self, mol_idx, node_keys):
        keys = list(node_keys)
        res.events.append(("remove", mol_idx, tuple(keys), None, None, self))
        return orig_remove(self, mol_idx, keys)

    def wrapped_backmap(self, system):
        res.stage = "backmap"
        out = orig_backmap(self, system)
        res.stage = "backmapped"
        return out

    BuildSystem.run_system = wrapped_run_system
    NonBondEngine.add_positions = wrapped_add
    NonBondEngine.remove_positions = wrapped_remove
    GenerateTemplates.run_system = wrapped_templates
    Backmap.run_system = wrapped_backmap
    old_handler = signal.signal(signal.SIGALRM, _alarm)
    signal.setitimer(signal.ITIMER_REAL, timeout, 1.0)
    # the timer repeats every second after its first expiry: an exception raised by the handler while the
    # interpreter runs a destructor or a gc callback is swallowed ("Exception ignored in ..."), and a one-shot
    # alarm would then leave an endless placement loop running for ever
    try:
        try:
            gcm.gen_coords(**kwargs)
        finally:
            signal.setitimer(signal.ITIMER_REAL, 0)
    except _Timeout:
        raise Inconclusive("gen_coords did not finish within the time budget")
    except Exception as err:
        res.exc = err
    finally:
        signal.setitimer(signal.ITIMER_REAL, 0)
        signal.signal(signal.SIGALRM, old_handler)
        BuildSystem.run_system = orig_run_system
        NonBondEngine.add_positions = orig_add
        NonBondEngine.remove_positions = orig_remove
        GenerateTemplates.run_system = orig_templates
        Backmap.run_system = orig_backmap
    out = ctx.dir / "out.gro"
    if out.exists():
        res.gro_text = out.read_text()
        try:
            res.gro = read_gro(res.gro_text)
        except Exception as err:   # reported by the caller
            res.gro = err
    return res


def dilute_box(spec, draw=None):
    """a cubic box edge that keeps the system dilute: ~ (number of residues * 1.5 nm^3 * 15)^(1/3), >= 6 nm"""
    by_name = {mt["name"]: mt for mt in spec["moltypes"]}
    nres = sum(cnt * len(by_name[name]["residues"]) for name, cnt in spec["molecules"])
    return max(6.0, round((nres * 22.0) ** (1.0 / 3.0), 1))
