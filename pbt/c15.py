"""C15 - one centred template and size per distinct residue; user values win."""
import itertools
import math

import numpy as np
import hypothesis.strategies as st

from . import gc
from .core import Violation, Reject, crash, Inconclusive

PID = "C15"
LEVEL = "exploration"
RULE = ("generated residue definitions (chains, rings, stars of 1-7 atoms; bonds/constraints with targets 0.1-0.5 nm, "
        "angles, function-2 impropers, virtual sites of every kind 2/3/3fd/3fad/3out/4fdn/n with random parameters), "
        "topologies that reuse a residue name with different atom names or identical content across molecule "
        "types, build files with [ template ]/[ bonds ] and [ volumes ]; run through Topology.from_gmx_topfile, "
        "preprocess, load_build_files and GenerateTemplates.run_system exactly as gen_coords does. Checked: equal "
        "atom-name labelled bond graphs share template key/size, different atom-name multisets do not; templates "
        "hold exactly the residue's atom names and are centred (1e-9); virtual sites sit where an independent "
        "implementation of the GROMACS constructions puts them (1e-6); every optimize_geometry call that reports "
        "success meets its bond/constraint (0.05 nm), angle and improper (5 deg) targets by independent "
        "measurement; user templates/volumes are used unchanged; all sizes positive. A pure-function layer tests "
        "construct_vs for rigid-motion equivariance and defining invariants on random frames. non-trivial = two "
        "residues sharing a template plus one with the same name but different content, or a virtual site; "
        "distinct = spec hash")
ASSUMPTIONS = ["virtual_sitesn is generated with function 1 (centre of geometry) only: the program documents "
               "that COM/COW are approximated by COG",
               "Weisfeiler-Lehman hash collisions between non-isomorphic residues with equal atom-name multisets "
               "are not generated on purpose and would be reported as 'shared_template' (none seen)"]
RULE += (' Bonds are of function type 1, 2 or 6 (reference length first); one-bead residues may carry a site constructed from that bead alone.')
BUDGET = {"quick": (16, 50), "thorough": (16, 800)}

TYPES = ["TA", "TB", "TC"]


def _f(x):
    return repr(float(x))


@st.composite
def _residue(draw, resname, prefix):
    n = draw(st.integers(1, 7))
    shape = draw(st.sampled_from(["chain", "chain", "ring", "star", "frustrated"])) if n >= 3 else "chain"
    if shape == "frustrated":
        n = 3
    names = [f"{prefix}{i + 1}" for i in range(n)]
    bonds = []
    if shape == "chain":
        pairs = [(i, i + 1) for i in range(n - 1)]
    elif shape in ("ring", "frustrated"):
        pairs = [(i, i + 1) for i in range(n - 1)] + [(n - 1, 0)]
    else:
        pairs = [(0, i) for i in range(1, n)]
    if shape == "frustrated":
        # a triangle whose lengths cannot all be met (the long side exceeds the sum of the others): the
        # optimiser ends with every member off by a few hundredths of a nm
        short = draw(st.sampled_from([0.2, 0.25, 0.3]))
        long_ = round(2 * short + draw(st.sampled_from([0.1, 0.15, 0.2, 0.3, 0.45])), 3)
        lengths = list(draw(st.permutations([short, short, long_])))
        for (a, b), length in zip(pairs, lengths):
            bonds.append(["constraints" if draw(st.booleans()) else "bonds", a, b, length])
        pairs = []
    for (a, b) in pairs:
        kind = "constraints" if draw(st.integers(0, 4)) == 0 else "bonds"
        bonds.append([kind, a, b, draw(st.sampled_from([0.15, 0.25, 0.3, 0.37, 0.47]))])
    adj = {i: set() for i in range(n)}
    for _, a, b, _l in bonds:
        adj[a].add(b)
        adj[b].add(a)
    angles = []
    if n >= 3 and draw(st.booleans()):
        cands = [(a, b, c) for b in range(n) for a in adj[b] for c in adj[b] if a < c]
        if cands:
            for (a, b, c) in draw(st.lists(st.sampled_from(cands), min_size=1, max_size=2, unique=True)):
                angles.append([a, b, c, draw(st.sampled_from(["1", "2"])), draw(st.sampled_from([90.0, 110.0, 130.0, 150.0]))])
    impropers = []
    if n >= 4 and draw(st.integers(0, 2)) == 0 and shape != "ring":
        quad = list(draw(st.permutations(range(n)))[:4])
        impropers.append(quad + [draw(st.sampled_from([-30.0, -15.0, 15.0, 30.0]))])
    vs = None
    need = {"2": 2, "3": 3, "3fd": 3, "3fad": 3, "3out": 3, "4fdn": 4, "n": 2}
    if n >= 2 and draw(st.integers(0, 1)) == 0:
        kind = draw(st.sampled_from([k for k, v in need.items() if v <= n]))
        cons = list(draw(st.permutations(range(n)))[:need[kind] if kind != "n" else draw(st.integers(2, n))])
        if kind == "2":
            params = [draw(st.sampled_from([0.2, 0.5, 0.8, 1.3]))]
        elif kind == "3":
            params = [draw(st.sampled_from([0.2, 0.4])), draw(st.sampled_from([0.1, 0.3]))]
        elif kind == "3fd":
            params = [draw(st.sampled_from([0.3, 0.6])), draw(st.sampled_from([0.1, 0.25]))]
        elif kind == "3fad":
            params = [draw(st.sampled_from([100.0, 120.0, -120.0, 210.0])), draw(st.sampled_from([0.1, 0.2]))]
        elif kind == "3out":
            params = [draw(st.sampled_from([0.2, 0.4])), draw(st.sampled_from([0.1, 0.3])), draw(st.sampled_from([0.5, -1.0]))]
        elif kind == "4fdn":
            params = [draw(st.sampled_from([0.8, 1.2])), draw(st.sampled_from([0.9, 1.1])), draw(st.sampled_from([0.1, -0.15]))]
        else:
            params = []
        vs = {"kind": kind, "cons": cons, "params": params, "name": f"{prefix}v"}
    elif n == 1 and draw(st.integers(0, 1)) == 0:
        # one bead and a site constructed from it alone (it sits on the bead): a residue without any bonded term
        vs = {"kind": "n", "cons": [0], "params": [], "name": f"{prefix}v"}
    atoms = [{"name": nm, "type": draw(st.sampled_from(TYPES))} for nm in names]
    # the force constant plays no part in the geometry a template has to meet: 0 (an angle kept for bookkeeping) too
    return {"resname": resname, "atoms": atoms, "bonds": bonds, "angles": angles, "impropers": impropers, "vs": vs,
            "angle_fc": draw(st.sampled_from(["50", "50", "0", "0.0", "1250.5"])),
            # harmonic bonds of function type 1, G96 bonds (2) or harmonic potentials (6): the reference length is
            # the first parameter of all three
            "bond_func": draw(st.sampled_from(["1", "1", "1", "2", "6"]))}


@st.composite
def _strategy(draw):
    if draw(st.integers(0, 7)) == 0:
        kind = draw(st.sampled_from(["2", "3", "3fd", "3fad", "3out", "4fdn", "n"]))
        pts = [[draw(st.integers(-300, 300)) / 100.0 for _ in range(3)] for _ in range(5)]
        return {"kind": "pure", "vs": kind, "points": pts,
                "params": [draw(st.integers(5, 150)) / 100.0 for _ in range(3)],
                "angles": [draw(st.integers(0, 628)) / 100.0 for _ in range(3)],
                "shift": [draw(st.integers(-500, 500)) / 100.0 for _ in range(3)], "rng": 1}
    ndefs = draw(st.integers(1, 3))
    resdefs = [draw(_residue(["RA", "RB", "RC"][i], "abc"[i])) for i in range(ndefs)]
    # a second residue with the name of the first but different atom names
    variant = None
    if draw(st.integers(0, 2)) == 0:
        variant = draw(_residue(resdefs[0]["resname"], "x"))
    # an "isomer": the atom names of the first residue, bonded in another way (a different residue: own
    # template, own size, own build-file entries), used in the same molecules as the first one
    isomer = None
    base = resdefs[0]
    if base["vs"] is None and len(base["atoms"]) >= 3 and draw(st.booleans()):
        n0 = len(base["atoms"])
        perm = list(draw(st.permutations(range(n0))))
        old_edges = {frozenset((a, b)) for _, a, b, _l in base["bonds"]}
        new_bonds = [[k, perm[a], perm[b], l] for k, a, b, l in base["bonds"]]
        if {frozenset((a, b)) for _, a, b, _l in new_bonds} != old_edges:
            # under a name of its own, or under the name of the first residue (same name, same atom names, other bonds)
            isomer = {"resname": draw(st.sampled_from(["RI", base["resname"], base["resname"]])), "atoms": [dict(a) for a in base["atoms"]], "bonds": new_bonds,
                      "angles": [], "impropers": [], "vs": None}
            resdefs = resdefs + [isomer]
    same_mol = draw(st.booleans())
    moltypes = []
    for mi in range(draw(st.integers(1, 2))):
        pool = list(resdefs)
        if isomer is not None:
            pool = pool + [base, isomer]
        if variant is not None and mi == 1:
            # the second molecule type uses the variant, alone or next to the residue whose name it shares
            pool = [variant] + resdefs[1:] + ([resdefs[0], variant] if same_mol else [])
        nres = draw(st.integers(1, 4))
        residues = [draw(st.sampled_from(pool)) for _ in range(nres)]
        moltypes.append({"name": f"M{'AB'[mi]}", "residues": residues})
    if variant is not None and len(moltypes) == 1:
        moltypes.append({"name": "MB", "residues": [variant]})
    molecules = [[mt["name"], draw(st.integers(1, 2))] for mt in moltypes]
    build = {"templates": {}, "volumes": {}}
    same_name_isomer = isomer is not None and isomer["resname"] == base["resname"]
    if variant is not None and variant["vs"] is None and resdefs[0]["vs"] is None and not same_name_isomer \
            and draw(st.booleans()):
        # the two residues that share a name each get their own [ template ] section (same resname line, other
        # atoms): templates are told apart by their content, so both are used. The keys carry "/x" for the variant.
        for key, rd in ((resdefs[0]["resname"], resdefs[0]), (variant["resname"] + "/x", variant)):
            pts = []
            for k in range(len(rd["atoms"])):
                pts.append([round(0.2 * k + draw(st.integers(-5, 5)) / 100.0, 3), round(draw(st.integers(-20, 20)) / 100.0, 3),
                            round(draw(st.integers(-20, 20)) / 100.0, 3)])
            build["templates"][key] = pts
    for rd in resdefs:
        if variant is not None and rd["resname"] == variant["resname"]:
            continue      # a resname-keyed [ volumes ] entry is ambiguous when two different residues share the name
        if isomer is not None and isomer["resname"] == base["resname"] and rd["resname"] == base["resname"]:
            continue      # the same holds for the isomer that carries the name of the first residue
        natoms = len(rd["atoms"]) + (1 if rd["vs"] else 0)
        if natoms >= 1 and rd["vs"] is None and draw(st.integers(0, 3)) == 0:
            pts = []
            for k in range(natoms):
                pts.append([round(0.2 * k + draw(st.integers(-5, 5)) / 100.0, 3), round(draw(st.integers(-20, 20)) / 100.0, 3),
                            round(draw(st.integers(-20, 20)) / 100.0, 3)])
            build["templates"][rd["resname"]] = pts
        if draw(st.integers(0, 3)) == 0:
            build["volumes"][rd["resname"]] = draw(st.sampled_from([0.35, 0.5, 0.72]))
    synonym = None
    if variant is None and isomer is None and base["vs"] is None and len(base["atoms"]) >= 1 and draw(st.integers(0, 4)) == 0:
        # the first residue also occurs under a second name (RS): same atoms and bonds, its own [ template ] entry
        # with the same coordinates, and a [ volumes ] entry under the second name only
        import copy
        syn = copy.deepcopy(base)
        syn["resname"] = "RS"
        hit = False
        for mt in moltypes:
            for k, rd in enumerate(mt["residues"]):
                if rd["resname"] == base["resname"] and draw(st.booleans()):
                    mt["residues"][k] = syn
                    hit = True
        if hit:
            natoms = len(base["atoms"])
            pts = build["templates"].get(base["resname"]) or [[round(0.2 * k + draw(st.integers(-5, 5)) / 100.0, 3),
                                                               round(draw(st.integers(-20, 20)) / 100.0, 3),
                                                               round(draw(st.integers(-20, 20)) / 100.0, 3)] for k in range(natoms)]
            build["templates"].pop(base["resname"], None)
            build["templates"][base["resname"]] = pts
            build["templates"]["RS"] = pts
            build["volumes"].pop(base["resname"], None)
            build["volumes"]["RS"] = draw(st.sampled_from([0.35, 0.61, 0.72]))
            synonym = base["resname"]
    return {"kind": "system", "moltypes": moltypes, "molecules": molecules, "build": build, "synonym": synonym,
            "variant": variant is not None, "rng": draw(st.integers(0, 2**31 - 1)),
            "skip_filter": draw(st.integers(0, 2)) == 0}


def strategy(tier):
    return _strategy()


# ----------------------------------------------------------------------------
def res_atoms(rd):
    atoms = list(rd["atoms"])
    if rd["vs"]:
        atoms = atoms + [{"name": rd["vs"]["name"], "type": "TA"}]
    return atoms


def render_top(spec):
    lines = ["[ defaults ]", "1 2 no 1.0 1.0", "[ atomtypes ]"]
    for t, sig in zip(TYPES, (0.3, 0.43, 0.52)):
        lines.append(f"{t} 36.0 0.0 A {sig} 2.0")
    for mt in spec["moltypes"]:
        lines += ["[ moleculetype ]", f"{mt['name']} 1", "[ atoms ]"]
        first = []
        idx = 1
        for r, rd in enumerate(mt["residues"]):
            first.append(idx)
            for at in res_atoms(rd):
                lines.append(f"{idx} {at['type']} {r + 1} {rd['resname']} {at['name']} {idx} 0.0 36.0")
                idx += 1
        secs = {"bonds": [], "constraints": [], "angles": [], "dihedrals": [], "virtual_sites2": [],
                "virtual_sites3": [], "virtual_sites4": [], "virtual_sitesn": []}
        for r, rd in enumerate(mt["residues"]):
            f = first[r]
            for kind, a, b, length in rd["bonds"]:
                if kind == "bonds":
                    secs["bonds"].append(f"{f + a} {f + b} {rd.get('bond_func', '1')} {_f(length)} 1000")
                else:
                    secs["constraints"].append(f"{f + a} {f + b} 1 {_f(length)}")
            for a, b, c, func, val in rd["angles"]:
                secs["angles"].append(f"{f + a} {f + b} {f + c} {func} {_f(val)} {rd.get('angle_fc', '50')}")
            for a, b, c, d, val in rd["impropers"]:
                secs["dihedrals"].append(f"{f + a} {f + b} {f + c} {f + d} 2 {_f(val)} 100")
            if rd["vs"]:
                v = rd["vs"]
                site = f + len(rd["atoms"])
                cons = " ".join(str(f + c) for c in v["cons"])
                p = " ".join(_f(x) for x in v["params"])
                if v["kind"] == "2":
                    secs["virtual_sites2"].append(f"{site} {cons} 1 {p}")
                elif v["kind"] in ("3", "3fd", "3fad", "3out"):
                    func = {"3": 1, "3fd": 2, "3fad": 3, "3out": 4}[v["kind"]]
                    secs["virtual_sites3"].append(f"{site} {cons} {func} {p}")
                elif v["kind"] == "4fdn":
                    secs["virtual_sites4"].append(f"{site} {cons} 2 {p}")
                else:
                    secs["virtual_sitesn"].append(f"{site} 1 {cons}")
            if r > 0:
                secs["bonds"].append(f"{first[r - 1]} {f} 1 0.4 1000")
        for sec, rows in secs.items():
            if rows:
                if spec.get("rng", 1) % 3 == 0:
                    # the order of the lines inside a section carries no meaning: one topology in three lists them
                    # shuffled (terms of a later residue before terms of an earlier one)
                    import random
                    random.Random(spec["rng"] + len(lines)).shuffle(rows)
                lines.append(f"[ {sec} ]")
                lines += rows
    lines += ["[ system ]", "x", "[ molecules ]"] + [f"{n} {c}" for n, c in spec["molecules"]]
    return "\n".join(lines) + "\n"


def render_build(spec):
    lines = []
    defs = {}
    for mt in spec["moltypes"]:
        for rd in mt["residues"]:
            defs.setdefault(rd["resname"], rd)
    first_defs = {}
    for mt in spec["moltypes"][:1]:
        for rd in mt["residues"]:
            first_defs.setdefault(rd["resname"], rd)
    for rn, pts in spec["build"]["templates"].items():
        is_variant = rn.endswith("/x")
        rn = rn.split("/")[0]
        rd = [r for mt in spec["moltypes"] for r in mt["residues"]
              if r["resname"] == rn and r["atoms"][0]["name"].startswith("x") == is_variant]
        if not rd:
            continue
        rd = rd[0]
        lines += ["[ template ]", f"resname {rn}", "[ atoms ]"]
        for at, p in zip(res_atoms(rd), pts):
            lines.append(f"{at['name']} {at['type']} {_f(p[0])} {_f(p[1])} {_f(p[2])}")
        lines.append("[ bonds ]")
        for kind, a, b, _l in rd["bonds"]:
            lines.append(f"{rd['atoms'][a]['name']} {rd['atoms'][b]['name']}")
    if spec["build"]["volumes"]:
        lines.append("[ volumes ]")
        for rn, vol in spec["build"]["volumes"].items():
            lines.append(f"{rn} {_f(vol)}")
    return "\n".join(lines) + "\n"


def vs_position(kind, params, pts):
    """independent implementation of the GROMACS manual's constructions"""
    p = [np.array(x, dtype=float) for x in pts]
    if kind == "2":
        a = params[0]
        return (1 - a) * p[0] + a * p[1]
    if kind == "3":
        a, b = params[:2]
        return (1 - a - b) * p[0] + a * p[1] + b * p[2]
    if kind == "3fd":
        a, d = params[:2]
        rij, rjk = p[1] - p[0], p[2] - p[1]
        v = rij + a * rjk
        return p[0] + d * v / np.linalg.norm(v)
    if kind == "3fad":
        theta, d = params[:2]
        rij, rjk = p[1] - p[0], p[2] - p[1]
        perp = rjk - rij * np.dot(rij, rjk) / np.dot(rij, rij)
        th = math.radians(theta)
        return p[0] + d * math.cos(th) * rij / np.linalg.norm(rij) + d * math.sin(th) * perp / np.linalg.norm(perp)
    if kind == "3out":
        a, b, c = params[:3]
        rij, rik = p[1] - p[0], p[2] - p[0]
        return p[0] + a * rij + b * rik + c * np.cross(rij, rik)
    if kind == "4fdn":
        a, b, c = params[:3]
        rij, rik, ril = p[1] - p[0], p[2] - p[0], p[3] - p[0]
        rja, rjb = a * rik - rij, b * ril - rij
        rm = np.cross(rja, rjb)
        return p[0] + c * rm / np.linalg.norm(rm)
    if kind == "n":
        return np.mean(p, axis=0)
    raise ValueError(kind)


SIGMA = {"TA": 0.3, "TB": 0.43, "TC": 0.52}


def expected_size(template, sigma_of):
    """size of a residue as the program documents it: radius of gyration of the atoms, each pushed
    outwards from the centre of geometry by its own radius (atoms sitting on the centre only count
    with their radius when nothing else is left)"""
    names = list(template)
    n = len(names)
    rows = np.zeros((n, 3))
    idx = 0
    radii = []
    for name in names:
        vec = np.array(template[name], dtype=float)
        length = float(np.linalg.norm(vec))
        if length > 1e-18:
            rows[idx] = vec + vec / length * sigma_of[name]
            idx += 1
        else:
            radii.append(sigma_of[name])
    if np.any(rows):
        total = 0.0
        for i in range(n):
            for j in range(n):
                total += float(np.dot(rows[i] - rows[j], rows[i] - rows[j]))
        return math.sqrt(total / (2.0 * n * n))
    return max(radii)


def angle_deg(a, b, c):
    v1, v2 = a - b, c - b
    cosang = np.dot(v1, v2) / (np.linalg.norm(v1) * np.linalg.norm(v2))
    return math.degrees(math.acos(max(-1.0, min(1.0, cosang))))


def dihedral_deg(a, b, c, d):
    # GROMACS manual: m = r_ij x r_kj, n = r_kj x r_kl, phi = sign(r_ij . n) * angle(m, n)
    rij, rkj, rkl = a - b, c - b, c - d
    m, n = np.cross(rij, rkj), np.cross(rkj, rkl)
    ang = angle_deg(m, np.zeros(3), n)
    return -ang if np.dot(rij, n) < 0 else ang


def check_pure(spec, ctx):
    from polyply.src.virtual_site_builder import construct_vs
    from vermouth.molecule import Interaction
    kind = spec["vs"]
    need = {"2": 2, "3": 3, "3fd": 3, "3fad": 3, "3out": 3, "4fdn": 4, "n": 4}[kind]
    pts = [np.array(p) for p in spec["points"][:need]]
    params = list(spec["params"])
    if kind == "3fad":
        params[0] = -150.0 + 240.0 * params[0]        # -138 .. 210 degrees: negative and reflex angles too
    sec, func = {"2": ("virtual_sites2", "1"), "3": ("virtual_sites3", "1"), "3fd": ("virtual_sites3", "2"),
                 "3fad": ("virtual_sites3", "3"), "3out": ("virtual_sites3", "4"), "4fdn": ("virtual_sites4", "2"),
                 "n": ("virtual_sitesn", "1")}[kind]
    nparam = {"2": 1, "3": 2, "3fd": 2, "3fad": 2, "3out": 3, "4fdn": 3, "n": 0}[kind]
    inter = Interaction(atoms=["s"] + [f"p{i}" for i in range(need)], parameters=[func] + [str(x) for x in params[:nparam]], meta={})

    def build(points):
        pos = {f"p{i}": p for i, p in enumerate(points)}
        pos["s"] = np.zeros(3)
        return np.array(construct_vs(sec, inter, pos), dtype=float)

    # degenerate frames are outside the domain
    if kind in ("3fad", "3out", "4fdn", "3fd"):
        if np.linalg.norm(np.cross(pts[1] - pts[0], pts[2] - pts[0])) < 1e-3:
            raise Reject("collinear frame")
    if kind == "4fdn":
        a, b = params[0], params[1]
        if np.linalg.norm(np.cross(a * (pts[2] - pts[0]) - (pts[1] - pts[0]), b * (pts[3] - pts[0]) - (pts[1] - pts[0]))) < 1e-3:
            raise Reject("degenerate frame")
    try:
        got = build(pts)
    except Exception as err:
        raise crash("construct_vs:crash", err)
    want = vs_position(kind, params, pts)
    if np.max(np.abs(got - want)) > 1e-9 * max(1.0, float(np.max(np.abs(want)))):
        raise Violation(f"construct_vs:{kind}", f"{got} expected {want} for points {pts} params {params[:nparam]}")
    # rigid motion equivariance
    ax, ay, az = spec["angles"]
    Rx = np.array([[1, 0, 0], [0, math.cos(ax), -math.sin(ax)], [0, math.sin(ax), math.cos(ax)]])
    Ry = np.array([[math.cos(ay), 0, math.sin(ay)], [0, 1, 0], [-math.sin(ay), 0, math.cos(ay)]])
    Rz = np.array([[math.cos(az), -math.sin(az), 0], [math.sin(az), math.cos(az), 0], [0, 0, 1]])
    R = Rz @ Ry @ Rx
    shift = np.array(spec["shift"])
    moved = build([R @ p + shift for p in pts])
    if np.max(np.abs(moved - (R @ got + shift))) > 1e-8 * max(1.0, float(np.max(np.abs(moved)))):
        raise Violation(f"construct_vs:{kind}_not_equivariant", f"{moved} vs {R @ got + shift}")
    ctx.label("pure_" + kind)
    ctx.nontrivial = True


def check(spec, ctx):
    if spec["kind"] == "pure":
        return check_pure(spec, ctx)
    import signal
    import networkx as nx
    from polyply.src.topology import Topology
    from polyply.src.load_library import load_build_files
    import polyply.src.generate_templates as gt
    top = ctx.dir / "system.top"
    top.write_text(render_top(spec))
    build_text = render_build(spec)
    bpath = ctx.dir / "build.bld"
    bpath.write_text(build_text)
    calls = []
    orig_opt = gt.optimize_geometry

    def wrapped(block, coords, inter_types=[], **kw):
        success, out = orig_opt(block, coords, inter_types, **kw)
        calls.append((block, {k: np.array(v, dtype=float).copy() for k, v in out.items()}, bool(success), list(inter_types)))
        return success, out

    def handler(signum, frame):
        raise gc._Timeout()

    gt.optimize_geometry = wrapped
    old = signal.signal(signal.SIGALRM, handler)
    signal.setitimer(signal.ITIMER_REAL, 40, 1.0)
    try:
        topology = Topology.from_gmx_topfile(str(top), "test")
        topology.preprocess()
        load_build_files(topology, None, [bpath] if build_text.strip() else [])
        gt.GenerateTemplates(topology=topology, max_opt=10, skip_filter=bool(spec.get("skip_filter"))).run_system(topology)
    except gc._Timeout:
        raise Inconclusive("template generation timed out")
    except (IOError, OSError) as err:
        raise Reject(str(err)[:200])
    except Exception as err:
        raise crash("templates:crash", err)
    finally:
        signal.setitimer(signal.ITIMER_REAL, 0)
        signal.signal(signal.SIGALRM, old)
        gt.optimize_geometry = orig_opt
    # (4) optimiser verdicts
    last_call = {}
    for num, (block, _c, _s, _t) in enumerate(calls):
        last_call[id(block)] = num
    for num, (block, coords, success, inter_types) in enumerate(calls):
        if not success:
            continue
        if last_call[id(block)] == num:
            # the verdict the template is accepted on: every kind of target counts, whatever list was handed over
            inter_types = ["bonds", "constraints", "angles", "dihedrals"]
        for sec in inter_types:
            for it in block.interactions.get(sec, []):
                pts = [coords[a] for a in it.atoms]
                if sec in ("bonds", "constraints"):
                    d = float(np.linalg.norm(pts[0] - pts[1]))
                    if abs(d - float(it.parameters[1])) > 0.05 + 1e-9:
                        raise Violation("optimiser:success_with_missed_bond", f"{sec} {it.atoms}: {d:.4f} target {it.parameters[1]}")
                elif sec == "angles":
                    a = angle_deg(pts[0], pts[1], pts[2])
                    if abs(a - float(it.parameters[1])) > 5 + 1e-6:
                        raise Violation("optimiser:success_with_missed_angle", f"angle {it.atoms}: {a:.2f} target {it.parameters[1]}")
                elif sec == "dihedrals" and it.parameters[0] == "2":
                    dval = dihedral_deg(*pts)
                    diff = (dval - float(it.parameters[1]) + 180.0) % 360.0 - 180.0
                    if abs(diff) > 5 + 1e-6:
                        raise Violation("optimiser:success_with_missed_improper", f"improper {it.atoms}: {dval:.2f} target {it.parameters[1]}")
    # residues
    by_name = {mt["name"]: mt for mt in spec["moltypes"]}
    mol_names = [n for n, c in spec["molecules"] for _ in range(c)]
    seen = {}       # canonical description -> template key
    key_names = {}  # template key -> atom name multiset
    key_canon = {}  # template key -> canonical residue (names, bonds)
    shared = 0
    has_vs = False
    for mi, meta in enumerate(topology.molecules):
        mt = by_name[mol_names[mi]]
        for node in meta.nodes:
            rd = mt["residues"][meta.nodes[node]["resid"] - 1]
            key = meta.nodes[node].get("template")
            if key is None or key not in meta.templates:
                raise Violation("template:missing", f"residue {rd['resname']} of molecule {mi} has no template")
            tmpl = meta.templates[key]
            names = sorted(a["name"] for a in res_atoms(rd))
            if sorted(tmpl.keys()) != names:
                raise Violation("template:atom_names", f"residue {rd['resname']}: template holds {sorted(tmpl.keys())}, residue has {names}")
            arr = np.array([tmpl[n] for n in names], dtype=float)
            if not np.all(np.isfinite(arr)):
                raise Violation("template:non_finite", f"residue {rd['resname']}")
            if np.max(np.abs(arr.mean(axis=0))) > 1e-9:
                raise Violation("template:not_centred", f"residue {rd['resname']}: centre of geometry {arr.mean(axis=0)}")
            if key not in topology.volumes:
                raise Violation("volume:missing", f"residue {rd['resname']} template {key}")
            vol = topology.volumes[key]
            if not (vol > 0) or not math.isfinite(vol):
                raise Violation("volume:not_positive", f"residue {rd['resname']}: {vol}")
            user_vol = spec["build"]["volumes"].get(rd["resname"])
            if spec.get("synonym") == rd["resname"]:
                # the size given under the second name belongs to the same template: what the residues under the
                # first name get is not said
                ctx.label("template_under_two_names")
                user_vol = vol
            if user_vol is not None and abs(vol - user_vol) > 1e-12:
                raise Violation("volume:user_value_not_used", f"residue {rd['resname']}: size {vol}, build file says {user_vol}")
            if user_vol is None:
                sigma_of = {a["name"]: SIGMA[a["type"]] for a in res_atoms(rd)}
                want = expected_size(tmpl, sigma_of)
                if abs(vol - want) > 1e-6 * max(1.0, want):
                    raise Violation("volume:not_from_own_template", f"residue {rd['resname']} (atoms {names}): size {vol:.6f}, its own "
                                                                    f"template gives {want:.6f}")
            canon = canonical(rd)
            if canon in seen:
                if seen[canon] != key:
                    raise Violation("grouping:equal_residues_split", f"residue {rd['resname']}: keys {seen[canon]} and {key}")
                shared += 1
            seen[canon] = key
            if key in key_canon and key_canon[key][:2] != canon[:2]:
                raise Violation("grouping:distinct_residues_share_template",
                                f"template {key} serves residue {rd['resname']} (bonds {canon[1]}) and another residue with the "
                                f"same atom names but bonds {key_canon[key][1]}")
            key_canon[key] = canon
            multiset = tuple(names)
            if key in key_names and key_names[key] != multiset:
                raise Violation("grouping:shared_template", f"template {key} is shared by residues with atom names {key_names[key]} and {multiset}")
            key_names[key] = multiset
            # user template
            user = spec["build"]["templates"].get(rd["resname"] + ("/x" if rd["atoms"][0]["name"].startswith("x") else ""))
            if user is not None:
                pts = np.array(user, dtype=float)
                pts = pts - pts.mean(axis=0)
                for at, p in zip(res_atoms(rd), pts):
                    if np.max(np.abs(np.array(tmpl[at["name"]]) - p)) > 1e-9:
                        raise Violation("user_template_not_used", f"residue {rd['resname']} atom {at['name']}: {tmpl[at['name']]} expected {p}")
                ctx.label("user_template")
            # virtual site
            if rd["vs"] and user is None:
                has_vs = True
                v = rd["vs"]
                cons = [np.array(tmpl[rd["atoms"][c]["name"]], dtype=float) for c in v["cons"]]
                try:
                    want = vs_position(v["kind"], v["params"], cons)
                except Exception:
                    continue
                got = np.array(tmpl[v["name"]], dtype=float)
                if not np.all(np.isfinite(want)):
                    continue
                if np.max(np.abs(got - want)) > 1e-6:
                    raise Violation(f"virtual_site:{v['kind']}", f"residue {rd['resname']}: site at {got}, construction gives {want}")
                ctx.label("vs_" + v["kind"])
    if spec["variant"]:
        ctx.label("same_name_different_content")
    ctx.nontrivial = has_vs or (shared >= 1 and spec["variant"])


def canonical(rd):
    """residues are equal iff their atom-name labelled bond graphs are equal (here: same definition)"""
    names = tuple(a["name"] for a in res_atoms(rd))
    edges = tuple(sorted((min(a, b), max(a, b)) for _, a, b, _l in rd["bonds"]))
    vs = (rd["vs"]["kind"], tuple(rd["vs"]["cons"])) if rd["vs"] else None
    return (names, edges, vs)
