"""
gen_params family: spec strategies, renderers and the driver (DESIGN.md 2, 4/C01-C02).

A *case spec* is plain JSON data:

 {"rng": int, "name": str,
  "blocks": [ {"name", "nrexcl", "syntax": "ff"|"itp",
               "atoms": [ {"name","type","charge","mass","cgrp","resid","resname"} ],
               "inter": [ {"sec","atoms":[int,..] (0-based; >= natoms means dangling, itp only),
                           "params":[str,..], "meta":{..}} ]} ],
  "links":  [ {"resname": "RA|RB",
               "atoms": [ {"key": "+BB", "attrs": {..}} ],
               "inter": [ {"sec","atoms":[key,..],"params":[..],"meta":{..}} ],
               "edges": [[key,key,{attrs}]], "non_edges": [[key,key,{attrs}]],
               "patterns": [ [[key,{attrs}], ..] ]} ],
  "mods":   [ {"name","atoms":[{"name","replace":{}}],"inter":[...]} ],
  "files":  [ {"kind":"ff"|"itp","blocks":[i..],"links":[i..],"mods":[i..]} ],
  "graph":  {"nodes":[{"id","resid","resname","attrs":{}}], "edges":[[id,id,{attrs}]]},
  "route":  "json"|"seq"|"txt",
  "mods_cli": [[resspec, modname]] }
"""
import json
import logging
from pathlib import Path

import hypothesis.strategies as st

RESNAMES = ["RA", "RB", "RC", "RD"]
ATOMNAMES = ["BB", "SC1", "SC2", "C1", "C2", "O1"]
TYPES = ["T1", "T2", "T3", "T4"]
CHARGES = [-1.0, -0.5, -0.25, 0.0, 0.25, 0.5, 1.0]
MASSES = [12.0, 36.0, 45.5, 72.0]
NPARAM = {"bonds": 2, "constraints": 1, "angles": 2, "dihedrals": 3, "impropers": 2,
          "pairs": 0, "exclusions": 0, "position_restraints": 3, "virtual_sites2": 1}
NATOMS = {"bonds": 2, "constraints": 2, "angles": 3, "dihedrals": 4, "pairs": 2,
          "exclusions": 2, "position_restraints": 1, "virtual_sites2": 3}


def _param(draw, lo=1, hi=9999):
    # short decimal strings whose float() round-trips through str()
    return str(draw(st.integers(lo, hi)) / 100.0)


@st.composite
def interaction(draw, sec, atoms, guard_ok=True, version=None):
    if sec == "dihedrals":
        func = draw(st.sampled_from(["1", "9", "2"]))
        if func == "2":
            params = [func, _param(draw), _param(draw)]
        else:
            params = [func, _param(draw), _param(draw), str(draw(st.integers(1, 4)))]
    elif sec in ("bonds", "angles"):
        params = [draw(st.sampled_from(["1", "2"]))] + [_param(draw) for _ in range(2)]
    elif sec == "constraints":
        params = ["1", _param(draw)]
    elif sec == "pairs":
        params = ["1"]
    elif sec == "exclusions":
        params = []
    elif sec == "position_restraints":
        params = ["1"] + [_param(draw) for _ in range(3)]
    elif sec == "virtual_sites2":
        params = ["1", _param(draw, 1, 99)]
    else:
        raise ValueError(sec)
    meta = {}
    if guard_ok and sec not in ("exclusions",) and draw(st.integers(0, 9)) == 0:
        meta[draw(st.sampled_from(["ifdef", "ifndef"]))] = draw(st.sampled_from(["FLEX", "POSRES"]))
    if version is not None:
        meta["version"] = version
    return {"sec": sec, "atoms": list(atoms), "params": params, "meta": meta}


def _paths(adj, length):
    """all simple paths with `length` nodes in the adjacency dict (both directions)."""
    out = []

    def rec(path):
        if len(path) == length:
            out.append(tuple(path))
            return
        for nxt in adj[path[-1]]:
            if nxt not in path:
                rec(path + [nxt])
    for start in adj:
        rec([start])
    return out


ITP_MULTITERM = True    # F20 fixed: same-atom terms of an .itp block get version tags


@st.composite
def block(draw, name, nrexcl, syntax, names=None, max_atoms=5, resname=None, nonbond_sections=True):
    if names is None:
        natoms = draw(st.integers(1, max_atoms))
        names = list(draw(st.permutations(ATOMNAMES))[:natoms])
        if draw(st.integers(0, 7)) == 0:
            # a bead name with a charge sign in it (N+, NC3+ ...): the sign belongs to the name, it is no prefix
            names[draw(st.integers(0, natoms - 1))] = draw(st.sampled_from(["N+", "NC3+", "Q-"]))
    else:
        natoms = len(names)
    atoms = []
    # the residue number written in the block's own [ atoms ] lines (a monomer cut out of a longer molecule keeps
    # its old number); the generated molecule is numbered by the residue graph whatever it says
    own_resid = draw(st.sampled_from([1, 1, 1, 1, 2, 3, 7]))
    for idx in range(natoms):
        atoms.append({"name": names[idx], "type": draw(st.sampled_from(TYPES)),
                      "charge": draw(st.sampled_from(CHARGES)), "mass": draw(st.sampled_from(MASSES)),
                      "cgrp": draw(st.integers(1, natoms)), "resid": own_resid, "resname": resname or name})
    if syntax == "itp" and natoms >= 2 and draw(st.integers(0, 5)) == 0:
        # a monomer .itp may use an atom name twice (two equal beads): only the atom number tells them apart
        i, j = draw(st.permutations(range(natoms)))[:2]
        for field in ("name", "type", "charge", "mass"):
            atoms[j][field] = atoms[i][field]
    inter = []
    adj = {i: [] for i in range(natoms)}
    # spanning tree of bonds / constraints so that the residue is connected
    for idx in range(1, natoms):
        other = draw(st.integers(0, idx - 1))
        sec = "constraints" if draw(st.integers(0, 5)) == 0 else "bonds"
        pair = [other, idx] if draw(st.booleans()) else [idx, other]
        inter.append(draw(interaction(sec, pair, guard_ok=False)))
        adj[idx].append(other)
        adj[other].append(idx)
    if natoms >= 3 and draw(st.integers(0, 3)) == 0:     # ring closing bond
        a = draw(st.integers(0, natoms - 1))
        cands = [b for b in range(natoms) if b != a and b not in adj[a]]
        if cands:
            b = draw(st.sampled_from(cands))
            inter.append(draw(interaction("bonds", [a, b], guard_ok=False)))
            adj[a].append(b)
            adj[b].append(a)
    plain_bonds = [it for it in inter if it["sec"] == "bonds"]
    if plain_bonds and draw(st.integers(0, 5)) == 0:
        # the same two atoms in two sections: a bond and, for rigid runs, a constraint on it
        twin = draw(st.sampled_from(plain_bonds))
        inter.append(draw(interaction("constraints", list(twin["atoms"]), guard_ok=False)))
    used = set()
    for length, sec in ((3, "angles"), (4, "dihedrals")):
        paths = _paths(adj, length)
        if paths and draw(st.booleans()):
            for path in draw(st.lists(st.sampled_from(paths), min_size=1, max_size=3)):
                key = (sec, min(path, path[::-1]))
                if key in used:
                    continue
                used.add(key)
                nterm = draw(st.sampled_from([1, 1, 1, 2, 3, 4])) if sec == "dihedrals" else 1
                if syntax == "itp" and not ITP_MULTITERM:
                    nterm = 1
                if nterm == 1:
                    inter.append(draw(interaction(sec, path)))
                else:
                    for ver in range(1, nterm + 1):
                        it = draw(interaction(sec, path, guard_ok=False, version=ver))
                        if it["params"][0] == "2":
                            it["params"] = ["9", it["params"][1], it["params"][2], "2"]
                        inter.append(it)
                    if draw(st.integers(0, 2)) == 0:
                        # two terms with the very same parameters are two terms all the same (their energies add up)
                        inter[-1]["params"] = list(inter[-nterm]["params"])
    if natoms >= 2 and nonbond_sections:
        for sec in ("pairs", "exclusions", "position_restraints", "virtual_sites2"):
            if draw(st.integers(0, 5)) == 0:
                need = NATOMS[sec]
                if sec == "exclusions" and natoms >= 3 and draw(st.integers(0, 2)) == 0:
                    # a line that excludes its first atom from two or three others
                    need = draw(st.integers(3, min(4, natoms)))
                if natoms >= need:
                    sel = draw(st.permutations(range(natoms)))[:need]
                    if sec in ("pairs", "exclusions") and set(sel) in [set(i["atoms"]) for i in inter if i["sec"] == sec]:
                        continue
                    inter.append(draw(interaction(sec, sel)))
    out = {"name": name, "nrexcl": nrexcl, "syntax": syntax, "atoms": atoms, "inter": inter}
    if syntax == "ff" and any(it["meta"].get("version", 1) > 1 for it in inter) and draw(st.integers(0, 2)) == 0:
        # same-atom terms written without version tags (they are told apart by their position)
        out["untag"] = True
    return out


ORDER_SETS = [
    (0, 1), (0, 1), (0, 1), (0, 1), (0, -1), (0, 2), (0, ">"), (0, "<"), (0, "*"),
    (0, 1, 2), (0, 1, 2), (-1, 0, 1), (0, ">", ">>"), (0, "*", "**"), (0, 1, 2, 3), (0, "<", "<<"),
]


def model_split_key(key):
    i = 0
    while i < len(key) and key[i] in "+-<>*":
        i += 1
    return key[:i], key[i:]


def split_order(key):
    i = 0
    while i < len(key) and key[i] in "+-<>*":
        i += 1
    return key[:i]


def order_prefix(order):
    if isinstance(order, int):
        return ("+" if order > 0 else "-") * abs(order)
    return order


@st.composite
def link(draw, blocks, label_pool, allow_replace=True, allow_atype_sel=True, prefer=None, bonded_only=False,
         nonbond_sections=True, atype_replace=False, removal_bias=False):
    orders = draw(st.sampled_from(ORDER_SETS))
    nres = len(orders)
    names = [b["name"] for b in blocks if len({a["resid"] for a in b["atoms"]}) == 1]
    # residue name per order
    if prefer and draw(st.integers(0, 3)) > 0:
        res_of_order = [draw(st.sampled_from(prefer)) for _ in orders]
    else:
        res_of_order = [draw(st.sampled_from(names)) for _ in orders]
    if draw(st.integers(0, 2)) > 0:          # homopolymer-like link is the common case
        res_of_order = [res_of_order[0]] * nres
    by_name = {b["name"]: b for b in blocks}
    link_resnames = sorted(set(res_of_order))
    if draw(st.integers(0, 5)) == 0:
        extra = draw(st.sampled_from(RESNAMES))
        link_resnames = sorted(set(link_resnames) | {extra})
    distinct = len(set(res_of_order)) > 1
    atoms = {}
    oi_of = {}

    def atom_key(oi):
        blk = by_name[res_of_order[oi]]
        if draw(st.integers(0, 11)) == 0:
            aname = draw(st.sampled_from(ATOMNAMES))      # possibly absent in the block
        else:
            aname = draw(st.sampled_from([a["name"] for a in blk["atoms"]]))
        key = order_prefix(orders[oi]) + aname
        oi_of.setdefault(key, oi)
        if key not in atoms:
            attrs = {}
            if distinct or draw(st.integers(0, 5)) == 0:
                attrs["resname"] = res_of_order[oi]
            if allow_atype_sel and draw(st.integers(0, 9)) == 0:
                match = [a for a in blk["atoms"] if a["name"] == aname]
                attrs["atype"] = match[0]["type"] if match and draw(st.integers(0, 3)) else draw(st.sampled_from(TYPES))
            if label_pool and draw(st.integers(0, 7)) == 0:
                lab = draw(st.sampled_from(label_pool))
                attrs[lab[0]] = lab[1]
            atoms[key] = attrs
        return key

    inter = []
    used = set()
    # the connecting interactions: chain the orders 0-1, 1-2, ... (connected residue pattern)
    shape = draw(st.sampled_from(["path", "path", "star"])) if nres > 2 else "path"
    pairs = [(i, i + 1) for i in range(nres - 1)] if shape == "path" else [(0, i) for i in range(1, nres)]
    for (oa, ob) in pairs:
        sec = draw(st.sampled_from(["bonds", "bonds", "bonds", "constraints", "angles"]))
        if bonded_only and sec == "angles":
            sec = "bonds"
        if sec == "angles":
            keys = [atom_key(oa), atom_key(oa), atom_key(ob)]
            if keys[0] == keys[1]:
                sec, keys = "bonds", [keys[0], keys[2]]
        else:
            keys = [atom_key(oa), atom_key(ob)]
        if len(set(keys)) != len(keys):
            continue
        if draw(st.booleans()):
            keys = keys[::-1]
        if (sec, tuple(keys)) in used:
            continue
        used.add((sec, tuple(keys)))
        inter.append(draw(interaction(sec, keys)))
    # extra interactions over already known atoms
    for _ in range(draw(st.integers(0, 2))):
        sec = draw(st.sampled_from(["bonds", "angles", "dihedrals", "exclusions", "pairs"]))
        if bonded_only and sec in ("angles", "dihedrals"):
            sec = "exclusions"
        if not nonbond_sections and sec in ("exclusions", "pairs"):
            continue
        need = NATOMS[sec]
        pool = list(atoms)
        for _k in range(draw(st.integers(0, 2))):
            atom_key(draw(st.integers(0, nres - 1)))
        pool = list(atoms)
        # an exclusion line may list more than two atoms: the first one is excluded from all the others
        long_excl = sec == "exclusions" and len(pool) >= 3 and draw(st.integers(0, 2)) == 0
        if long_excl:
            need = 3
        if len(pool) < need:
            continue
        keys = list(draw(st.permutations(pool))[:need])
        if (sec, tuple(keys)) in used or (sec, tuple(keys[::-1])) in used:
            continue
        used.add((sec, tuple(keys)))
        nterm = draw(st.sampled_from([1, 1, 2])) if sec == "dihedrals" else 1
        if nterm == 1:
            inter.append(draw(interaction(sec, keys)))
            if long_excl and draw(st.booleans()):
                # and the same atoms once more, listed from the other end (another first atom)
                used.add((sec, tuple(keys[::-1])))
                inter.append(draw(interaction(sec, keys[::-1])))
        else:
            for ver in range(1, nterm + 1):
                it = draw(interaction(sec, keys, guard_ok=False, version=ver))
                if it["params"][0] == "2":
                    it["params"] = ["9", it["params"][1], it["params"][2], "2"]
                inter.append(it)
    if not inter:
        keys = [atom_key(0), atom_key(1)]
        inter.append(draw(interaction("bonds", keys)))
    if orders[0] == 0 and draw(st.integers(0, 4)) == 0:
        # a term that re-defines an interaction of the first residue's own block (same section, same atoms in
        # the same order): wherever the link applies it replaces the block's parameters. It is put at a
        # random place among the link's terms.
        blk0 = by_name[res_of_order[0]]
        cands = [it for it in blk0["inter"] if it["sec"] in ("bonds", "angles", "constraints") and not it["meta"]]
        if cands:
            src = draw(st.sampled_from(cands))
            keys = [blk0["atoms"][a]["name"] for a in src["atoms"]]
            if (src["sec"], tuple(keys)) not in used and (src["sec"], tuple(keys[::-1])) not in used:
                for key in keys:
                    if key not in atoms:
                        atoms[key] = {"resname": res_of_order[0]} if distinct else {}
                used.add((src["sec"], tuple(keys)))
                inter.insert(draw(st.integers(0, len(inter))), draw(interaction(src["sec"], keys, guard_ok=False)))
    keys_all = list(atoms)
    edges, non_edges, patterns = [], [], []
    if draw(st.integers(0, 5)) == 0:
        # a labelled link: every inter-residue atom edge the interactions make is listed in [ edges ] with
        # the label (an unlabelled edge between the same residues would strip the label again)
        lt = draw(st.sampled_from(["circle", "a13"]))
        cross = []
        for it in inter:
            if it["sec"] in ("bonds", "angles", "dihedrals", "constraints") and not (it["sec"] == "dihedrals" and it["params"][0] == "2"):
                for a, b in zip(it["atoms"][:-1], it["atoms"][1:]):
                    if a != b and split_order(a) != split_order(b) and [a, b] not in cross and [b, a] not in cross:
                        cross.append([a, b])
        if draw(st.integers(0, 5)) == 0 and len(cross) > 1:
            cross = cross[:-1]          # one edge stays unlabelled: the residue-level label vanishes
        for a, b in cross:
            edges.append([a, b, {"linktype": lt}])
    if not bonded_only and draw(st.integers(0, 7)) == 0 and len(keys_all) >= 2:
        pair = list(draw(st.permutations(keys_all))[:2])
        edges.append(pair + [{}])
    if draw(st.integers(0, 6)) == 0 and len(keys_all) >= 1:
        src = draw(st.sampled_from(keys_all))
        oi = draw(st.integers(0, nres - 1))
        blk = by_name[res_of_order[oi]]
        tgt = order_prefix(orders[oi]) + draw(st.sampled_from([a["name"] for a in blk["atoms"]]))
        if isinstance(orders[oi], int) and tgt != src:
            non_edges.append([src, tgt, {}])
        outside = [o for o in (-1, 1, 2) if o not in orders]
        zero = [k for k in keys_all if split_order(k) == ""]
        if outside and zero and orders[0] == 0 and draw(st.booleans()):
            # the forbidden neighbour may sit in a residue the link does not otherwise touch (the residue before a
            # chain end, say); the link's residue names restrict which neighbour counts
            o = draw(st.sampled_from(outside))
            blk = draw(st.sampled_from(blocks))
            non_edges.append([draw(st.sampled_from(zero)), order_prefix(o) + draw(st.sampled_from([a["name"] for a in blk["atoms"]])), {}])
    if allow_atype_sel and not atype_replace and draw(st.integers(0, 6)) == 0:
        for _ in range(draw(st.integers(1, 2))):
            pat = []
            for key in draw(st.lists(st.sampled_from(keys_all), min_size=1, max_size=2, unique=True)):
                pat.append([key, {"atype": draw(st.sampled_from(TYPES))}])
            patterns.append(pat)
    if allow_replace and draw(st.integers(0, 1 if (atype_replace or removal_bias) else 6)) == 0:
        key = draw(st.sampled_from(keys_all))
        atoms[key] = dict(atoms[key])
        kind = 1 if atype_replace and draw(st.integers(0, 3)) > 0 else draw(st.integers(0, 2))
        if removal_bias and not atype_replace:
            kind = 0
        if kind == 0:
            atoms[key]["replace"] = {"atomname": None}       # the atom is removed
        elif kind == 1 and atype_replace:
            # the new type never equals a selectable type; patterns (which look at the live molecule)
            # are not generated together with type replacement
            atoms[key]["replace"] = {"atype": draw(st.sampled_from(["TR1", "TR2"]))}
        else:
            atoms[key]["replace"] = {"charge": draw(st.sampled_from(CHARGES))}
    if (edges or any("replace" in v for v in atoms.values())) and draw(st.integers(0, 3)) == 0:
        # a link that only replaces attributes and/or lists [ edges ]: no interaction line at all. Its residues
        # must then be held together by the listed edges.
        comp = {split_order(k): split_order(k) for k in atoms}

        def find(x):
            while comp[x] != x:
                x = comp[x]
            return x
        for a, b, _ in edges:
            comp[find(split_order(a))] = find(split_order(b))
        if len({find(x) for x in comp}) == 1:
            inter = []
    link_resname = "|".join(link_resnames)
    if nres > 1 and not non_edges and not patterns and draw(st.integers(0, 7)) == 0:
        # a link that names only one of its residues (no link-wide resname, a resname on the atoms of one residue):
        # the other residues of the link may have any name
        named = draw(st.integers(0, nres - 1))
        if any(oi_of.get(k, 0) == named for k in atoms):
            for k in atoms:
                atoms[k] = {a: v for a, v in atoms[k].items() if a != "resname"}
                if oi_of.get(k, 0) == named:
                    atoms[k]["resname"] = res_of_order[named]
            link_resname = None
    log = None
    if not any("replace" in v for v in atoms.values()) and draw(st.integers(0, 7)) == 0:
        # a message the force field attaches to the link ([ info ] / [ warning ] / [ error ] section): it is shown
        # wherever the link applies and changes nothing else
        log = [draw(st.sampled_from(["info", "warning", "warning", "error"])), "this link is a rough guess"]
    return {"resname": link_resname,
            "atoms": [{"key": k, "attrs": v} for k, v in atoms.items()],
            "inter": inter, "edges": edges, "non_edges": non_edges, "patterns": patterns, "log": log}


# ----------------------------------------------------------------------------
# residue graphs
@st.composite
def graph_shape(draw, n):
    """edges over nodes 0..n-1: linear / tree / ring / ring with tail."""
    kind = draw(st.sampled_from(["linear", "linear", "linear", "tree", "ring", "ringtail"])) if n > 2 else "linear"
    edges = []
    if kind == "linear":
        edges = [(i, i + 1) for i in range(n - 1)]
    elif kind == "tree":
        for i in range(1, n):
            edges.append((draw(st.integers(max(0, i - 3), i - 1)), i))
    elif kind == "ring":
        edges = [(i, i + 1) for i in range(n - 1)] + [(0, n - 1)]
    else:
        k = draw(st.integers(3, n))
        edges = [(i, i + 1) for i in range(k - 1)] + [(0, k - 1)]
        for i in range(k, n):
            edges.append((draw(st.integers(0, i - 1)), i))
    return kind, edges


@st.composite
def residue_graph(draw, resnames, max_res=8, label_pool=(), routes=("json", "json", "seq", "txt"),
                  min_res=1, name_modes=("homo", "block", "random")):
    n = draw(st.integers(min_res, max_res))
    kind, edges = draw(graph_shape(n))
    start = draw(st.sampled_from([1, 1, 1, 0, 2, 5, 17]))
    route = draw(st.sampled_from(routes))
    if kind != "linear":
        route = "json"
    if route != "json":
        start = 1
    mode = draw(st.sampled_from(list(name_modes)))
    if mode == "homo":
        names = [draw(st.sampled_from(resnames))] * n
    elif mode == "block":
        a, b = draw(st.sampled_from(resnames)), draw(st.sampled_from(resnames))
        cut = draw(st.integers(0, n))
        names = [a] * cut + [b] * (n - cut)
    else:
        names = [draw(st.sampled_from(resnames)) for _ in range(n)]
    # node keys: resid-1, offset, or permutation
    keymode = draw(st.sampled_from(["plain", "plain", "offset", "perm"])) if route == "json" else "plain"
    if keymode == "plain":
        ids = list(range(n))
        if start > 1:
            ids = [start - 1 + i for i in range(n)]
    elif keymode == "offset":
        off = draw(st.integers(1, 20))
        ids = [off + i for i in range(n)]
    else:
        ids = list(draw(st.permutations(range(n))))
    nodes = []
    for i in range(n):
        attrs = {}
        if route == "json" and label_pool and draw(st.integers(0, 3)) == 0:
            lab = draw(st.sampled_from(list(label_pool)))
            attrs[lab[0]] = lab[1]
        nodes.append({"id": ids[i], "resid": start + i, "resname": names[i], "attrs": attrs})
    eds = []
    label_mode = draw(st.sampled_from(["none", "none", "ring", "random"])) if route == "json" else "none"
    for k, (u, v) in enumerate(edges):
        attrs = {}
        if label_mode == "ring" and kind in ("ring", "ringtail") and u == 0 and v != 1:
            attrs["linktype"] = "circle"
        elif label_mode == "random" and draw(st.integers(0, 3)) == 0:
            attrs["linktype"] = draw(st.sampled_from(["circle", "a13"]))
        pair = [ids[u], ids[v]] if draw(st.booleans()) else [ids[v], ids[u]]
        eds.append(pair + [attrs])
    order = draw(st.permutations(range(n))) if route == "json" else list(range(n))
    return {"nodes": nodes, "edges": eds, "kind": kind, "node_order": list(order)}, route


LABELS = [("chiral", "R"), ("chiral", "S"), ("tag", "x")]


@st.composite
def case(draw, with_links=True, max_res=8, mixed_nrexcl=False, routes=("json", "json", "seq", "txt"),
         allow_itp=True, allow_replace=True, min_res=1, allow_dangling=True, link_bias=False,
         bonded_only=False, f22_safe=False, min_blocks=1, name_modes=("homo", "block", "random"),
         explicit_links=False, removal_bias=False, resname_mismatch=False):
    nblocks = draw(st.integers(min_blocks, 3))
    names = RESNAMES[:nblocks]
    blocks = []
    base_excl = draw(st.integers(0, 3))
    syntaxes = [draw(st.sampled_from(["ff", "ff", "itp"])) if allow_itp else "ff" for _ in names]
    # F22: with a polyply .itp among the inputs every interaction section makes graph edges
    nonbond = not (f22_safe and "itp" in syntaxes)
    for name, syntax in zip(names, syntaxes):
        nrexcl = draw(st.integers(0, 4)) if mixed_nrexcl else base_excl
        # a block may be called differently from the residue named in its atoms lines (block PEG, residue EO)
        other = name + "x" if resname_mismatch and syntax == "ff" and draw(st.integers(0, 3)) == 0 else None
        blocks.append(draw(block(name, nrexcl, syntax, nonbond_sections=nonbond, resname=other)))
    use_labels = draw(st.booleans())
    label_pool = LABELS if use_labels else []
    links = []
    graph, route = draw(residue_graph(names, max_res=max_res, label_pool=label_pool, routes=routes,
                                      min_res=min_res, name_modes=name_modes))
    prefer = sorted({n["resname"] for n in graph["nodes"]}) if link_bias else None
    if with_links:
        atype_replace = allow_replace and not removal_bias and draw(st.integers(0, 2)) == 0
        for _ in range(draw(st.integers(1 if link_bias else 0, 4))):
            links.append(draw(link(blocks, label_pool, allow_replace=allow_replace, prefer=prefer,
                                   bonded_only=bonded_only, nonbond_sections=nonbond,
                                   atype_replace=atype_replace, removal_bias=removal_bias)))
        if len(blocks) >= 2 and not atype_replace and not removal_bias and draw(st.integers(0, 5)) == 0:
            # twin links: the same atom names on the same residue names, told apart only by the type the first
            # atom must have (each applies where its type is found)
            ba, bb = blocks[0], blocks[1]
            common = [a["name"] for a in ba["atoms"] if any(x["name"] == a["name"] and x["type"] != a["type"] for x in bb["atoms"])]
            both = [a["name"] for a in ba["atoms"] if any(x["name"] == a["name"] for x in bb["atoms"])]
            if common and both and len({a["resid"] for a in ba["atoms"]}) == 1 and len({a["resid"] for a in bb["atoms"]}) == 1:
                x = draw(st.sampled_from(common))
                y = draw(st.sampled_from(both))
                ta = [a["type"] for a in ba["atoms"] if a["name"] == x][0]
                tb = [a["type"] for a in bb["atoms"] if a["name"] == x][0]
                for t in (ta, tb):
                    links.append({"resname": f"{ba['name']}|{bb['name']}",
                                  "atoms": [{"key": x, "attrs": {"atype": t}}, {"key": "+" + y, "attrs": {}}],
                                  "inter": [{"sec": "bonds", "atoms": [x, "+" + y], "params": ["1", _param(draw), _param(draw)],
                                             "meta": {}}],
                                  "edges": [], "non_edges": [], "patterns": []})
        labelled = [l for l in links if any(e[2].get("linktype") for e in l["edges"]) and not l["non_edges"] and not l["patterns"]]
        if labelled and draw(st.booleans()):
            # a labelled link and its plain counterpart: the same residues, orders and atoms, other parameters, no
            # label on the edges - the one applies along labelled edges of the residue graph, the other along plain ones
            import copy
            src = draw(st.sampled_from(labelled))
            plain = copy.deepcopy(src)
            plain["edges"] = [e for e in plain["edges"] if not e[2].get("linktype")]
            plain["log"] = None
            for it in plain["inter"]:
                if it["sec"] in ("bonds", "angles") and len(it["params"]) == 3:
                    it["params"] = [it["params"][0], _param(draw), _param(draw)]
            links.insert(draw(st.integers(0, len(links))), plain)
        if links and draw(st.integers(0, 4)) == 0:
            # one link is meant for molecules with a certain attribute only (as the martini protein links that ask
            # for scfix / extdih): gen_params molecules carry none, so it applies nowhere
            draw(st.sampled_from(links))["molmeta"] = draw(st.sampled_from(["scfix true", "extdih true"]))
        if atype_replace:
            # selection by type is what makes a type replacement observable for later links
            retyped = {model_split_key(at["key"])[1] for lnk in links for at in lnk["atoms"]
                       if "atype" in at["attrs"].get("replace", {})}
            for lnk in links:
                for at in lnk["atoms"]:
                    order, base = model_split_key(at["key"])
                    if "atype" not in at["attrs"] and "replace" not in at["attrs"] and \
                            draw(st.integers(0, 1 if base in retyped else 4)) == 0:
                        cands = [a["type"] for b in blocks for a in b["atoms"] if a["name"] == base]
                        if cands:
                            at["attrs"] = dict(at["attrs"], atype=draw(st.sampled_from(cands)))
    # dangling interactions in itp blocks
    if allow_dangling:
        for blk in blocks:
            if blk["syntax"] == "itp" and draw(st.integers(0, 2)) == 0:
                nat = len(blk["atoms"])
                for _ in range(draw(st.integers(1, 2))):
                    sec = draw(st.sampled_from(["bonds", "bonds", "angles"]))
                    if bonded_only:
                        sec = "bonds"
                    need = NATOMS[sec]
                    span = draw(st.sampled_from([1, 1, 2]))
                    if nat * (span + 1) < need:
                        continue
                    idxs = sorted(draw(st.lists(st.integers(0, nat * (span + 1) - 1), min_size=need,
                                                max_size=need, unique=True)))
                    if idxs[0] >= nat or idxs[-1] < nat:
                        continue
                    # residues used must be consecutive 0..k
                    used = sorted({i // nat for i in idxs})
                    if used != list(range(len(used))):
                        continue
                    if [tuple(i["atoms"]) for i in blk["inter"] if i["sec"] == sec].count(tuple(idxs)):
                        continue
                    blk["inter"].append(draw(interaction(sec, idxs, guard_ok=False)))
                # the same dangling atoms listed once more further down in the section, after another dangling
                # line (the later definition is the one that counts)
                for sec in ("bonds", "angles"):
                    dang = [i for i in blk["inter"] if i["sec"] == sec and any(a >= nat for a in i["atoms"])]
                    if len(dang) >= 2 and draw(st.booleans()):
                        blk["inter"].append(draw(interaction(sec, list(dang[0]["atoms"]), guard_ok=False)))
    # files: .ff blocks + links in one or two ff files, each itp block in its own file
    ff_blocks = [i for i, b in enumerate(blocks) if b["syntax"] == "ff"]
    itp_blocks = [i for i, b in enumerate(blocks) if b["syntax"] == "itp"]
    files = []
    link_idx = list(range(len(links)))
    if draw(st.integers(0, 3)) == 0 and (len(ff_blocks) > 1 or links):
        files.append({"kind": "ff", "blocks": ff_blocks, "links": [], "mods": []})
        files.append({"kind": "ff", "blocks": [], "links": link_idx, "mods": []})
    elif ff_blocks or links:
        files.append({"kind": "ff", "blocks": ff_blocks, "links": link_idx, "mods": []})
    if len(itp_blocks) > 1 and draw(st.integers(0, 2)) == 0:
        # several molecule types in one .itp file, in any order
        files.append({"kind": "itp", "blocks": list(draw(st.permutations(itp_blocks))), "links": [], "mods": []})
    else:
        for i in itp_blocks:
            files.append({"kind": "itp", "blocks": [i], "links": [], "mods": []})
    files = list(draw(st.permutations(files)))
    if route == "json" and graph["edges"]:
        for lnk in links:
            types = sorted({e[2]["linktype"] for e in lnk["edges"] if e[2].get("linktype")})
            if types and draw(st.booleans()):
                # a typed link is there to be used: one edge of the residue graph carries its type
                draw(st.sampled_from(graph["edges"]))[2]["linktype"] = types[0]
    if not any(f["kind"] == "itp" for f in files):
        for lnk in links:
            named = [frozenset((e[0], e[1])) for e in lnk["edges"] if e[2].get("linktype")]
            if named and draw(st.booleans()):
                # the way typed links are written in the libraries: the bond itself is flagged as making no edge
                # ("edge": false) and the connection, with its type, is declared under [ edges ]
                for it in lnk["inter"]:
                    if it["sec"] == "bonds" and len(it["atoms"]) == 2 and frozenset(it["atoms"]) in named:
                        it["meta"] = dict(it["meta"], edge=False)
    explicit = []
    one_link = False
    if explicit_links and route == "json" and (explicit_links == "adjacent" or draw(st.integers(0, 1)) == 0):
        # links that name atoms by their number in the final molecule ([ molmeta ] by_atom_id true):
        # a bond between atoms of two residues that are not neighbours in the residue graph, so that no
        # other definition can own the same atom pair
        by_name = {b["name"]: b for b in blocks}
        nodes = sorted(graph["nodes"], key=lambda nd: nd["resid"])
        first, count = {}, 1
        for nd in nodes:
            first[nd["id"]] = count
            count += len(by_name[nd["resname"]]["atoms"])
        adjacent = {frozenset((u, v)) for u, v, _ in graph["edges"]}
        far = [(a["id"], b["id"]) for i, a in enumerate(nodes) for b in nodes[i + 1:]
               if frozenset((a["id"], b["id"])) not in adjacent]
        has_removal = any(at["attrs"].get("replace", {}).get("atomname", 0) is None for l in links for at in l["atoms"])
        if explicit_links == "adjacent" and not links:
            # without any other link the numbered bonds may also join neighbouring residues; all of them are
            # listed in one [ link ]
            far = [(a["id"], b["id"]) for i, a in enumerate(nodes) for b in nodes[i + 1:]]
            one_link = True
        if far and not has_removal:
            for (u, v) in draw(st.lists(st.sampled_from(far), min_size=1, max_size=4 if one_link else 2, unique=True)):
                nu = len(by_name[[n for n in nodes if n["id"] == u][0]["resname"]]["atoms"])
                nv = len(by_name[[n for n in nodes if n["id"] == v][0]["resname"]]["atoms"])
                a = first[u] + draw(st.integers(0, nu - 1))
                b = first[v] + draw(st.integers(0, nv - 1))
                pair = [a, b] if draw(st.booleans()) else [b, a]
                if draw(st.integers(0, 2)) == 0:
                    explicit.append({"sec": "constraints", "atoms": pair, "params": ["1", _param(draw)]})
                else:
                    explicit.append({"sec": "bonds", "atoms": pair, "params": ["1", _param(draw), _param(draw)]})
    if draw(st.integers(0, 2 if route == "seq" else 7)) == 0:
        # residue names with lower-case letters (Ra, Rb ...): names are case sensitive everywhere
        mapping = {n: n[0] + n[1:].lower() for n in names}

        def ren(text):
            return "|".join(mapping.get(part, part) for part in text.split("|"))
        for b in blocks:
            b["name"] = ren(b["name"])
            for a in b["atoms"]:
                a["resname"] = ren(a["resname"])
        for lnk in links:
            if lnk["resname"] is not None:
                lnk["resname"] = ren(lnk["resname"])
            for at in lnk["atoms"]:
                if "resname" in at["attrs"]:
                    at["attrs"] = dict(at["attrs"], resname=ren(at["attrs"]["resname"]))
        for nd in graph["nodes"]:
            nd["resname"] = ren(nd["resname"])
    return {"rng": draw(st.integers(0, 2**31 - 1)), "name": "mol", "blocks": blocks, "links": links,
            "mods": [], "files": files, "graph": graph, "route": route, "mods_cli": [], "explicit": explicit,
            "explicit_one_link": one_link}


# ----------------------------------------------------------------------------
# rendering
def _fmt_float(value):
    return repr(float(value))


def _meta_json(meta):
    return json.dumps(meta) if meta else ""


def render_ff_block(blk):
    lines = ["[ moleculetype ]", f"{blk['name']} {blk['nrexcl']}", "[ atoms ]"]
    for idx, atom in enumerate(blk["atoms"], start=1):
        lines.append(f"{idx} {atom['type']} {atom['resid']} {atom['resname']} {atom['name']} "
                     f"{atom['cgrp']} {_fmt_float(atom['charge'])} {_fmt_float(atom['mass'])}")
    secs = {}
    for it in blk["inter"]:
        secs.setdefault(it["sec"], []).append(it)
    for sec, items in secs.items():
        lines.append(f"[ {sec} ]")
        for it in items:
            names = [blk["atoms"][a]["name"] for a in it["atoms"]]
            sep = ["--"] if sec == "exclusions" and False else []
            meta = {k: v for k, v in it["meta"].items() if not (k == "version" and blk.get("untag"))}
            lines.append(" ".join(names + sep + it["params"] + ([_meta_json(meta)] if meta else [])))
    return "\n".join(lines) + "\n"


def _attrs_json(attrs):
    return json.dumps(attrs)


def render_ff_link(lnk):
    """Per-atom attributes are repeated inline at every mention inside interactions
    (vermouth rejects a mention whose attributes differ from the first definition);
    the [ atoms ] section is used for atoms that carry a `replace`."""
    lines = ["[ link ]"] + ([f"resname {json.dumps(lnk['resname'])}"] if lnk["resname"] is not None else [])
    if lnk.get("molmeta"):
        lines += ["[ molmeta ]", lnk["molmeta"]]
    attrs_of = {a["key"]: a["attrs"] for a in lnk["atoms"]}

    def inline(key):
        attrs = {k: v for k, v in attrs_of.get(key, {}).items() if k != "replace"}
        return f"{key} {_attrs_json(attrs)}" if attrs else key

    mentioned = {k for it in lnk["inter"] for k in it["atoms"]}
    with_replace = [a for a in lnk["atoms"] if "replace" in a["attrs"] or a["key"] not in mentioned]
    if with_replace:
        lines.append("[ atoms ]")
        for atom in with_replace:
            lines.append(f"{atom['key']} {_attrs_json(atom['attrs'])}")
    secs = {}
    for it in lnk["inter"]:
        secs.setdefault(it["sec"], []).append(it)
    for sec, items in secs.items():
        lines.append(f"[ {sec} ]")
        for it in items:
            lines.append(" ".join([inline(k) for k in it["atoms"]] + it["params"]
                                  + ([_meta_json(it["meta"])] if it["meta"] else [])))
    if lnk["edges"]:
        lines.append("[ edges ]")
        for a, b, attrs in lnk["edges"]:
            lines.append(f"{a} {b}" + (f" {_attrs_json(attrs)}" if attrs else ""))
    if lnk["non_edges"]:
        lines.append("[ non-edges ]")
        for a, b, attrs in lnk["non_edges"]:
            lines.append(f"{a} {b}" + (f" {_attrs_json(attrs)}" if attrs else ""))
    if lnk["patterns"]:
        lines.append("[ patterns ]")
        for pat in lnk["patterns"]:
            lines.append(" ".join(f"{k} {_attrs_json(a)}" if a else k for k, a in pat))
    if lnk.get("log"):
        lines += [f"[ {lnk['log'][0]} ]", lnk["log"][1]]
    return "\n".join(lines) + "\n"


def render_ff_mod(mod):
    lines = ["[ modification ]", mod["name"], "[ atoms ]"]
    for atom in mod["atoms"]:
        attrs = {"element": "X", "PTM_atom": False}
        if atom.get("replace"):
            attrs["replace"] = atom["replace"]
        lines.append(f"{atom['name']} {json.dumps(attrs)}")
    secs = {}
    for it in mod["inter"]:
        secs.setdefault(it["sec"], []).append(it)
    for sec, items in secs.items():
        lines.append(f"[ {sec} ]")
        for it in items:
            lines.append(" ".join(list(it["atoms"]) + it["params"]))
    return "\n".join(lines) + "\n"


def render_itp_block(blk):
    lines = ["[ moleculetype ]", f"{blk['name']} {blk['nrexcl']}", "[ atoms ]"]
    for idx, atom in enumerate(blk["atoms"], start=1):
        lines.append(f"{idx} {atom['type']} {atom['resid']} {atom['resname']} {atom['name']} "
                     f"{atom['cgrp']} {_fmt_float(atom['charge'])} {_fmt_float(atom['mass'])}")
    secs = {}
    for it in blk["inter"]:
        secs.setdefault(it["sec"], []).append(it)
    for sec, items in secs.items():
        lines.append(f"[ {sec} ]")
        plain = [it for it in items if not (it["meta"].get("ifdef") or it["meta"].get("ifndef"))]
        guarded = [it for it in items if it["meta"].get("ifdef") or it["meta"].get("ifndef")]
        for it in plain:
            lines.append(" ".join([str(a + 1) for a in it["atoms"]] + it["params"]))
        for it in guarded:
            kind = "ifdef" if it["meta"].get("ifdef") else "ifndef"
            lines.append(f"#{kind} {it['meta'][kind]}")
            lines.append(" ".join([str(a + 1) for a in it["atoms"]] + it["params"]))
            lines.append("#endif")
    return "\n".join(lines) + "\n"


def render_json_graph(graph, edge_key="edges"):
    order = graph.get("node_order") or list(range(len(graph["nodes"])))
    nodes = []
    for i in order:
        node = graph["nodes"][i]
        rec = {"id": node["id"], "resname": node["resname"]}
        if node.get("resid") is not None:
            rec["resid"] = node["resid"]
        rec.update(node.get("attrs", {}))
        nodes.append(rec)
    edges = []
    for u, v, attrs in graph["edges"]:
        rec = {"source": u, "target": v}
        rec.update(attrs)
        edges.append(rec)
    return json.dumps({"directed": False, "multigraph": False, "graph": {}, "nodes": nodes, edge_key: edges})


def write_inputs(spec, directory):
    """Write the force-field files and the sequence input; returns kwargs for gen_params."""
    directory = Path(directory)
    inpaths = []
    for num, fil in enumerate(spec["files"]):
        if fil["kind"] == "ff":
            text = "".join(render_ff_block(spec["blocks"][i]) + "\n" for i in fil["blocks"])
            text += "".join(render_ff_link(spec["links"][i]) + "\n" for i in fil["links"])
            text += "".join(render_ff_mod(spec["mods"][i]) + "\n" for i in fil.get("mods", []))
            path = directory / f"f{num}.ff"
        else:
            text = "".join(render_itp_block(spec["blocks"][i]) + "\n" for i in fil["blocks"])
            path = directory / f"f{num}.itp"
        if spec.get("rng", 1) % 4 == 0:
            # one case in four: every input file has the same base name, each in a directory of its own
            path = directory / f"d{num}" / ("defs" + path.suffix)
            path.parent.mkdir(exist_ok=True)
        path.write_text(text)
        inpaths.append(path)
    if spec.get("explicit"):
        lines = []
        if spec.get("explicit_one_link"):
            lines += ["[ link ]", "[ molmeta ]", "by_atom_id true"]
            for sec in sorted({it["sec"] for it in spec["explicit"]}):
                lines.append(f"[ {sec} ]")
                lines += [" ".join([str(a) for a in it["atoms"]] + it["params"]) for it in spec["explicit"] if it["sec"] == sec]
            lines.append("")
        for it in ([] if spec.get("explicit_one_link") else spec["explicit"]):
            lines += ["[ link ]", "[ molmeta ]", "by_atom_id true", f"[ {it['sec']} ]",
                      " ".join([str(a) for a in it["atoms"]] + it["params"]), ""]
        path = directory / "explicit.ff"
        path.write_text("\n".join(lines) + "\n")
        inpaths.append(path)
    kwargs = {"name": spec.get("name", "mol"), "inpath": inpaths, "lib": None,
              "seq": None, "seq_file": None, "dsdna": bool(spec.get("dsdna", False)),
              "mods": [tuple(m) for m in spec.get("mods_cli", [])]}
    graph = spec["graph"]
    route = spec["route"]
    if route == "seq":
        seq = []
        for node in graph["nodes"]:
            if seq and seq[-1][0] == node["resname"]:
                seq[-1][1] += 1
            else:
                seq.append([node["resname"], 1])
        kwargs["seq"] = [f"{n}:{c}" for n, c in seq]
    elif route == "txt":
        path = directory / "seq.txt"
        names = [node["resname"] for node in graph["nodes"]]
        # the names stand on one line or, half of the time, on lines of one to three names each
        per_line = spec.get("rng", 0) % 6
        if per_line in (1, 2, 3):
            text = "\n".join(" ".join(names[i:i + per_line]) for i in range(0, len(names), per_line)) + "\n"
        else:
            text = " ".join(names) + "\n"
        path.write_text(text)
        kwargs["seq_file"] = path
    else:
        path = directory / "seq.json"
        path.write_text(render_json_graph(graph, spec.get("edge_key", "edges")))
        kwargs["seq_file"] = path
    return kwargs


# exceptions that mean "input rejected" (documented error channel of the programs)
CLEAN = (IOError, OSError)


class Run:
    """Result of one gen_params execution."""

    def __init__(self):
        self.exc = None
        self.text = None
        self.out_exists = False
        self.captured = {}
        self.warnings = []
        self.stage = None


def run_gen_params(spec, ctx, outname="out.itp", capture=True):
    """Runs gen_params on the rendered inputs inside ctx.dir."""
    import polyply.src.gen_itp as gen_itp
    from . import core
    kwargs = write_inputs(spec, ctx.dir)
    out = ctx.dir / outname
    run = Run()
    orig_find = gen_itp.find_missing_edges
    orig_links = gen_itp.ApplyLinks

    def find_wrapper(meta_molecule, molecule):
        run.captured["meta"] = meta_molecule
        run.captured["molecule"] = molecule
        run.stage = "after_links"
        missing = list(orig_find(meta_molecule, molecule))
        run.captured["missing"] = missing
        return iter(missing)

    import vermouth.gmx.itp as vitp
    orig_write = vitp.write_molecule_itp

    def write_wrapper(molecule, *args, **kw):
        # the molecule that is written is "the molecule that was built"
        run.captured["molecule"] = molecule
        return orig_write(molecule, *args, **kw)

    orig_mods = gen_itp.ApplyModifications

    def mods_wrapper(*args, **kw):
        proc = orig_mods(*args, **kw)
        inner = proc.run_molecule

        def run_molecule(meta_molecule):
            result = inner(meta_molecule)
            # links and modifications are applied: this is the molecule that was built. Its interaction lines are
            # noted down as they are now (section, atoms, parameters, guard)
            mol = result.molecule
            run.captured["built_lines"] = sorted(
                (sec, tuple(str(a) for a in it.atoms), tuple(str(p_) for p_ in it.parameters),
                 str((it.meta or {}).get("ifdef")), str((it.meta or {}).get("ifndef")))
                for sec, items in mol.interactions.items() for it in items)
            return result
        proc.run_molecule = run_molecule
        return proc

    if capture:
        gen_itp.find_missing_edges = find_wrapper
        vitp.write_molecule_itp = write_wrapper
        gen_itp.ApplyModifications = mods_wrapper
    try:
        gen_itp.gen_params(outpath=out, **kwargs)
    except Exception as err:  # classified by the caller
        run.exc = err
    finally:
        gen_itp.find_missing_edges = orig_find
        vitp.write_molecule_itp = orig_write
        gen_itp.ApplyModifications = orig_mods
    run.out_exists = out.exists()
    if run.out_exists:
        run.text = out.read_text()
    run.warnings = [r for r in core._COLLECTOR.records if r[0] >= logging.WARNING]
    return run


# ----------------------------------------------------------------------------
# multi-residue blocks (referenced from the residue graph with from_itp)
MULTI_RESNAMES = ["XA", "XB", "XC"]


@st.composite
def multires_block(draw, name, nrexcl, syntax, resname_pool=None):
    nres = draw(st.integers(2, 3))
    atoms, inter = [], []
    # the block's own residue numbers need not start at 1 (a fragment cut out of a larger molecule)
    base = draw(st.sampled_from([1, 1, 1, 3, 10]))
    resnames = [draw(st.sampled_from(resname_pool or MULTI_RESNAMES)) for _ in range(nres)]
    first_of = []
    for r in range(nres):
        nat = draw(st.integers(1, 3))
        names = draw(st.permutations(ATOMNAMES))[:nat]
        if syntax == "ff":      # atom names are unique within a .ff block
            names = [f"{nm}{r + 1}" for nm in names]
        first_of.append(len(atoms))
        for k in range(nat):
            atoms.append({"name": names[k], "type": draw(st.sampled_from(TYPES)),
                          "charge": draw(st.sampled_from(CHARGES)), "mass": draw(st.sampled_from(MASSES)),
                          "cgrp": draw(st.integers(1, 6)), "resid": base + r, "resname": resnames[r]})
            if k > 0:
                other = first_of[r] + draw(st.integers(0, k - 1))
                inter.append(draw(interaction("bonds", [other, first_of[r] + k], guard_ok=False)))
        if r > 0:   # connect to the previous residue
            a = draw(st.integers(first_of[r - 1], first_of[r] - 1))
            b = draw(st.integers(first_of[r], len(atoms) - 1))
            sec = draw(st.sampled_from(["bonds", "bonds", "constraints"]))
            inter.append(draw(interaction(sec, [a, b], guard_ok=False)))
    n = len(atoms)
    adj = {i: [] for i in range(n)}
    for it in inter:
        a, b = it["atoms"]
        adj[a].append(b)
        adj[b].append(a)
    for length, sec in ((3, "angles"), (4, "dihedrals")):
        paths = _paths(adj, length)
        if paths and draw(st.booleans()):
            seen = set()
            for path in draw(st.lists(st.sampled_from(paths), min_size=1, max_size=2)):
                key = min(path, path[::-1])
                if key in seen:
                    continue
                seen.add(key)
                inter.append(draw(interaction(sec, path, guard_ok=(syntax == "ff" or True))))
    return {"name": name, "nrexcl": nrexcl, "syntax": syntax, "atoms": atoms, "inter": inter,
            "multires": nres}


@st.composite
def multires_case(draw, mixed_nrexcl=False, bonded_only=False):
    """mixed_nrexcl: every block has its own nrexcl, and the residues of the multi-residue blocks may carry the
    residue name of a regular block (blocks are chosen by block name, not by the residue name of their atoms)"""
    nrexcl = draw(st.integers(0, 3))
    nnormal = draw(st.integers(1 if mixed_nrexcl else 0, 2))
    blocks = []
    for name in RESNAMES[:nnormal]:
        own = draw(st.integers(0, 4)) if mixed_nrexcl else nrexcl
        blocks.append(draw(block(name, own, draw(st.sampled_from(["ff", "itp"])), nonbond_sections=not bonded_only)))
    nmulti = draw(st.integers(1, 2))
    pool = RESNAMES[:nnormal] if mixed_nrexcl and draw(st.booleans()) else None
    for name in ["MA", "MB"][:nmulti]:
        own = draw(st.integers(0, 4)) if mixed_nrexcl else nrexcl
        blocks.append(draw(multires_block(name, own, draw(st.sampled_from(["ff", "itp", "itp"])), resname_pool=pool)))
    multi = [b for b in blocks if b.get("multires")]
    normal = [b for b in blocks if not b.get("multires")]
    # segments
    segs = []
    for _ in range(draw(st.integers(1, 4))):
        if normal and draw(st.integers(0, 2)) == 0:
            segs.append(("n", draw(st.sampled_from(normal)), draw(st.integers(1, 2))))
        else:
            segs.append(("m", draw(st.sampled_from(multi)), draw(st.sampled_from([1, 1, 2]))))
    if not any(s[0] == "m" for s in segs):
        segs.append(("m", multi[0], 1))
    start = draw(st.sampled_from([1, 1, 2, 9]))
    nodes = []
    for kind, blk, count in segs:
        for _ in range(count):
            if kind == "n":
                nodes.append({"resname": blk["name"], "attrs": {}})
            else:
                resnames, seen_resids = [], []
                for at in blk["atoms"]:
                    if at["resid"] not in seen_resids:        # the block may number its residues from any value
                        seen_resids.append(at["resid"])
                        resnames.append(at["resname"])
                for rn in resnames:
                    nodes.append({"resname": rn, "attrs": {"from_itp": blk["name"]}})
    n = len(nodes)
    keymode = draw(st.sampled_from(["plain", "plain", "offset", "perm"]))
    if keymode == "plain":
        ids = [start - 1 + i for i in range(n)]
    elif keymode == "offset":
        off = draw(st.integers(1, 20))
        ids = [off + i for i in range(n)]
    else:
        ids = list(draw(st.permutations(range(n))))
    for i, nd in enumerate(nodes):
        nd["id"] = ids[i]
        nd["resid"] = start + i
    edges = [[ids[i], ids[i + 1], {}] if draw(st.booleans()) else [ids[i + 1], ids[i], {}] for i in range(n - 1)]
    graph = {"nodes": nodes, "edges": edges, "kind": "linear", "node_order": list(draw(st.permutations(range(n))))}
    links = []
    single = [b for b in blocks if not b.get("multires")]
    files = []
    ff_blocks = [i for i, b in enumerate(blocks) if b["syntax"] == "ff"]
    if ff_blocks:
        files.append({"kind": "ff", "blocks": ff_blocks, "links": [], "mods": []})
    for i, b in enumerate(blocks):
        if b["syntax"] == "itp":
            files.append({"kind": "itp", "blocks": [i], "links": [], "mods": []})
    files = list(draw(st.permutations(files)))
    return {"rng": draw(st.integers(0, 2**31 - 1)), "name": "mol", "blocks": blocks, "links": links,
            "mods": [], "files": files, "graph": graph, "route": "json", "mods_cli": []}


# ----------------------------------------------------------------------------
# terminal modifications
PROTEIN = ["GLY", "ALA", "LYS"]


@st.composite
def mods_case(draw):
    nrexcl = draw(st.integers(0, 3))
    nblocks = draw(st.integers(1, 3))
    # non-protein residues too, among them names that are fragments of amino-acid names (AL, PR, S)
    names = draw(st.permutations(PROTEIN + ["RA", "AL", "PR", "S"]))[:nblocks]
    blocks = []
    shared = draw(st.permutations(ATOMNAMES))[:3]          # names shared between blocks
    for name in names:
        nat = draw(st.sampled_from([1, 2, 2, 3, 3, 4]))
        pool = list(shared) + [a for a in ATOMNAMES if a not in shared]
        blocks.append(draw(block(name, nrexcl, "ff", names=pool[:nat])))
    mods = []
    for mname in ["N-ter", "C-ter"] + (["M1"] if draw(st.booleans()) else []):
        atoms = []
        for an in draw(st.lists(st.sampled_from(shared[:2]), min_size=1, max_size=2, unique=True)):
            rep = {}
            if draw(st.booleans()):
                rep["atype"] = draw(st.sampled_from(["Q1", "Q5"]))
            if draw(st.booleans()):
                rep["charge"] = draw(st.sampled_from(CHARGES))
            atoms.append({"name": an, "replace": rep})
        inter = []
        if len(atoms) == 2 and draw(st.booleans()):
            inter.append({"sec": draw(st.sampled_from(["bonds", "constraints"])),
                          "atoms": [atoms[0]["name"], atoms[1]["name"]],
                          "params": ["1", _param(draw)], "meta": {}})
        mods.append({"name": mname, "atoms": atoms, "inter": inter})
    graph, route = draw(residue_graph(list(names), max_res=6, routes=("json", "json", "seq", "txt")))
    links = []
    for _ in range(draw(st.integers(0, 2))):
        links.append(draw(link(blocks, [], allow_replace=False, allow_atype_sel=False,
                               prefer=sorted({n["resname"] for n in graph["nodes"]}))))
    used_names = {n["resname"] for n in graph["nodes"]}
    x, y = shared[0], shared[1]
    if graph["kind"] == "linear" and draw(st.booleans()) \
            and all(len(b["atoms"]) >= 2 for b in blocks if b["name"] in used_names) \
            and not any(model_split_key(at["key"])[1] == x for l in links for at in l["atoms"]):
        # a link that renames an atom (the modifications select their atoms by the name the atom has after the
        # links were applied). The renamed atom is referred to by no other link position, so the order in which
        # the residue pairs are visited does not matter.
        links.append({"resname": "|".join(sorted(used_names)),
                      "atoms": [{"key": x, "attrs": {"replace": {"atomname": x + "r"}}}, {"key": "+" + y, "attrs": {}}],
                      "inter": [{"sec": "bonds", "atoms": [x, "+" + y], "params": ["1", _param(draw), _param(draw)],
                                 "meta": {}}],
                      "edges": [], "non_edges": [], "patterns": []})
        # the terminal modifications name the atom by its old name, with a replacement of their own
        for mod in mods[:2]:
            hit = [a for a in mod["atoms"] if a["name"] == x]
            if not hit and not mod["inter"]:
                mod["atoms"].append({"name": x, "replace": {"atype": "Q1"}})
            elif hit and not hit[0]["replace"]:
                hit[0]["replace"] = {"atype": "Q5"}
    files = [{"kind": "ff", "blocks": list(range(len(blocks))), "links": list(range(len(links))),
              "mods": list(range(len(mods)))}]
    mods_cli = []
    if draw(st.integers(0, 2)) == 0:
        for node in draw(st.lists(st.sampled_from(graph["nodes"]), min_size=1, max_size=2,
                                  unique_by=lambda nd: nd["resid"])):
            mods_cli.append([f"{node['resname']}{node['resid']}", draw(st.sampled_from([m["name"] for m in mods]))])
    return {"rng": draw(st.integers(0, 2**31 - 1)), "name": "mol", "blocks": blocks, "links": links,
            "mods": mods, "files": files, "graph": graph, "route": route, "mods_cli": mods_cli}
