"""C06 - backmapping places rigid, centred, same-handed copies of the residue template."""
import itertools

import numpy as np
import hypothesis.strategies as st

from . import gc, c03
from .core import Violation, Reject, crash

PID = "C06"
LEVEL = "exploration"
RULE = ("C03 systems (residues of 1-6 atoms) whose residues get user templates from a build file (random "
        "non-degenerate coordinates; >=4 non-coplanar atoms in about half of them, planar and linear ones too) or "
        "generated templates; backmapping factors 0.2-1.0; all neighbour arrangements of linear/branched/ring "
        "residue graphs; full runs and backmap-only runs (-mc). From the captured topology every backmapped "
        "residue is tested: centre of geometry = residue position, Kabsch fit of the template onto (atoms - "
        "centre)/factor has residual <= 1e-6 with a proper rotation, pairwise distances scaled exactly, each atom "
        "carries the vector of its own atom name. Separately rotate_xyz is tested for orthogonality and det=+1 "
        "on random angle triples. non-trivial = a backmapped residue with >=4 non-coplanar atoms and >=1 bonded "
        "neighbour; distinct = spec hash")
ASSUMPTIONS = ["templates are read from MetaMolecule.templates under the residue's template key (captured)",
               "tolerances: 1e-6 nm on the fit residual, 1e-8 on the centre"]
RULE += (' Backmapping factors 1.5 and 2.5, atom names differing in case only (a1 / A1) and templates spread over several build files are generated as well.')
BUDGET = {"quick": (16, 40), "thorough": (16, 1500)}


@st.composite
def _template_coords(draw, n):
    """n points, pairwise >= 0.12 nm apart; shape drawn from chiral / planar / linear"""
    shape = draw(st.sampled_from(["chiral", "chiral", "planar", "linear"])) if n >= 3 else "linear"
    pts = []
    tries = 0
    while len(pts) < n and tries < 200:
        tries += 1
        p = [draw(st.integers(-40, 40)) / 100.0 for _ in range(3)]
        if shape == "planar":
            p[2] = 0.0
        elif shape == "linear":
            p[1] = p[2] = 0.0
        if all(sum((a - b) ** 2 for a, b in zip(p, q)) >= 0.12 ** 2 for q in pts):
            pts.append(p)
    if len(pts) < n:
        pts = [[0.15 * i, 0.0, 0.0] for i in range(n)]
        shape = "linear"
    if n >= 3 and draw(st.integers(0, 5)) == 0:
        # two atoms of the template on the same spot (a dummy particle on a bead)
        pts[1] = list(pts[0])
        shape = "stacked"
    return pts, shape


@st.composite
def _strategy(draw):
    if draw(st.integers(0, 9)) == 0:
        return {"kind": "rot", "angles": [[draw(st.floats(-7, 7, allow_nan=False)) for _ in range(3)]
                                          for _ in range(20)], "rng": 1}
    with_vs = draw(st.integers(0, 3)) == 0
    spec = draw(gc.system(max_res=6, max_total_mol=4, allow_vs=with_vs))
    # enlarge some residues to 5-6 atoms for chirality
    resdefs = {}
    for mt in spec["moltypes"]:
        for res in mt["residues"]:
            resdefs[res["resname"]] = res
    types = [a["name"] for a in spec["atomtypes"]]
    for rn, res in resdefs.items():
        if res["vs"] is None and draw(st.booleans()):
            extra = draw(st.integers(1, 3))
            base = len(res["atoms"])
            for k in range(extra):
                idx = base + k
                res["atoms"].append({"name": f"{rn[1].lower()}{idx + 1}", "type": draw(st.sampled_from(types)), "mass": 36.0})
                res["bonds"].append([draw(st.integers(0, idx - 1)), idx, 0.3])
    for rn, res in resdefs.items():
        if res["vs"] is None and len(res["atoms"]) >= 2 and draw(st.integers(0, 3)) == 0:
            # two atom names that differ in case only (a1 and A1, as CA the carbon and Ca the ion): names are case
            # sensitive, each atom takes the template position of its own name
            res["atoms"][-1]["name"] = res["atoms"][0]["name"].upper()
            spec["case_twin_atom_names"] = True
    # all residues with the same name share the same definition object content
    for mt in spec["moltypes"]:
        mt["residues"] = [resdefs[r["resname"]] for r in mt["residues"]]
    # two residues of different name may carry the same residue number (residues are told apart by number
    # and name): every atom still takes the vector of its own residue
    if len(resdefs) >= 2 and draw(st.integers(0, 2)) == 0:
        names_ = sorted(resdefs)
        a, b = names_[0], names_[1]
        # two such end residues are attached to one residue of the first molecule type
        mt0 = spec["moltypes"][0]
        if len(mt0["residues"]) <= 6:
            par = draw(st.integers(0, len(mt0["residues"]) - 1))
            n0 = len(mt0["residues"])
            mt0["residues"] = mt0["residues"] + [resdefs[a], resdefs[b]]
            mt0["res_edges"] = mt0["res_edges"] + [[par, n0], [par, n0 + 1]]
        for mt in spec["moltypes"]:
            # only two end residues attached to the same residue share a number: the backmapper keeps its
            # record of finished residues, and tells the two sides of an inter-residue bond apart, by number
            # (other placements of a shared number end in a KeyError / UnboundLocalError on the pinned tree)
            degree = {}
            for u, v in mt["res_edges"]:
                degree[u] = degree.get(u, 0) + 1
                degree[v] = degree.get(v, 0) + 1
            parent = {}
            for u, v in mt["res_edges"]:
                if degree.get(v) == 1:
                    parent[v] = u
                if degree.get(u) == 1:
                    parent[u] = v
            resids = [r + 1 for r in range(len(mt["residues"]))]
            done = False
            for i in range(len(resids)):
                for j in range(i + 1, len(resids)):
                    if not done and i in parent and j in parent and parent[i] == parent[j] and parent[i] < i \
                            and {mt["residues"][i]["resname"], mt["residues"][j]["resname"]} == {a, b}:
                        resids[j] = resids[i]
                        done = True
            mt["resids"] = resids
        spec["shared_resids"] = True
    # inter-residue bonds start from any real atom of a residue (a branch point then sees its neighbours
    # through several of its atoms)
    if draw(st.booleans()):
        for mt in spec["moltypes"]:
            ea = {}
            for r1, r2 in mt["res_edges"]:
                n1 = len(mt["residues"][r1]["atoms"]) - (1 if mt["residues"][r1]["vs"] else 0)
                n2 = len(mt["residues"][r2]["atoms"]) - (1 if mt["residues"][r2]["vs"] else 0)
                ea[f"{r1}-{r2}"] = (draw(st.integers(0, n1 - 1)), draw(st.integers(0, n2 - 1)))
            mt["edge_atoms"] = ea
    build = []
    templates = {}
    volumes = {}
    for rn, res in resdefs.items():
        n = len(res["atoms"])
        if res["vs"] is not None:
            # generated template; sometimes with a user supplied size
            if draw(st.booleans()):
                volumes[rn] = draw(st.sampled_from([0.45, 0.6]))
            continue
        if (n >= 2 and draw(st.integers(0, 2)) > 0) or (n == 1 and draw(st.booleans())):
            pts, shape = draw(_template_coords(n))
            if n == 1:
                # a one-atom residue with a template of its own, written away from the origin
                pts = [[draw(st.integers(-100, 100)) / 100.0 for _ in range(3)]]
                shape = "single"
            templates[rn] = {"coords": pts, "shape": shape}
            build += ["[ template ]", f"resname {rn}", "[ atoms ]"]
            for at, p in zip(res["atoms"], pts):
                build.append(f"{at['name']} {at['type']} {p[0]!r} {p[1]!r} {p[2]!r}")
            build.append("[ bonds ]")
            for i, j, _ in res["bonds"]:
                build.append(f"{res['atoms'][i]['name']} {res['atoms'][j]['name']}")
    if templates and draw(st.integers(0, 2)) == 0:
        # a second residue name with the same atoms and bonds (an end group that keeps the beads of the repeat
        # unit) and its own [ template ] entry holding the same coordinates
        import copy
        rn = draw(st.sampled_from(sorted(templates)))
        twin = None
        for mt in spec["moltypes"]:
            for k, res in enumerate(mt["residues"]):
                if res["resname"] == rn and draw(st.booleans()):
                    if twin is None:
                        twin = copy.deepcopy(res)
                        twin["resname"] = "TW"
                    mt["residues"][k] = twin
        if twin is not None:
            templates["TW"] = templates[rn]
            build += ["[ template ]", "resname TW", "[ atoms ]"]
            for at, p in zip(twin["atoms"], templates[rn]["coords"]):
                build.append(f"{at['name']} {at['type']} {p[0]!r} {p[1]!r} {p[2]!r}")
            build.append("[ bonds ]")
            for i, j, _ in twin["bonds"]:
                build.append(f"{twin['atoms'][i]['name']} {twin['atoms'][j]['name']}")
            spec["twin_template"] = True
    if volumes:
        build.append("[ volumes ]")
        for rn, vol in volumes.items():
            build.append(f"{rn} {vol!r}")
    spec["build"] = build or None
    spec["user_templates"] = templates
    edge = gc.dilute_box(spec)
    opts = {"box": [edge, edge, edge], "bfudge": draw(st.sampled_from([0.2, 0.4, 0.7, 1.0, 1.0, 0.0, 1.5, 2.5]))}
    if draw(st.integers(0, 2)) == 0:
        opts["step_fudge"] = draw(st.sampled_from([0.7, 1.3]))       # the step length factor has no say in backmapping
    spec["opts"] = opts
    if draw(st.integers(0, 3)) == 0:
        spec["coords"] = draw(c03.supplied_coords(spec, opts["box"], mode="mc",
                                                  nres=None if draw(st.booleans()) else 1))
        if spec["coords"] and draw(st.booleans()):
            # the same residues also come with atom positions (-c next to -mc): they are backmapped around the
            # given centres all the same
            atoms = draw(c03.supplied_coords(spec, opts["box"], mode="c", nres=spec["coords"]["nres"]))
            spec["coords"]["also_atoms"] = atoms["atoms"]
    spec["kind"] = "system"
    return spec


def strategy(tier):
    return _strategy()


def kabsch(T, X):
    """optimal proper rotation R (3x3) with R @ T_i ~ X_i; returns R, rms residual, rank"""
    H = T.T @ X
    U, S, Vt = np.linalg.svd(H)
    d = np.sign(np.linalg.det(Vt.T @ U.T))
    D = np.diag([1.0, 1.0, d if d != 0 else 1.0])
    R = Vt.T @ D @ U.T
    resid = float(np.sqrt(np.mean(np.sum((T @ R.T - X) ** 2, axis=1))))
    rank = int(np.sum(S > 1e-9 * max(S.max(), 1e-30)))
    return R, resid, rank


def noncoplanar(T):
    if len(T) < 4:
        return False
    c = T - T.mean(axis=0)
    return np.linalg.matrix_rank(c, tol=1e-6) == 3


def check(spec, ctx):
    if spec.get("kind") == "rot":
        from polyply.src.linalg_functions import rotate_xyz
        for ang in spec["angles"]:
            R = rotate_xyz(np.eye(3), ang[0], ang[1], ang[2])
            if not np.allclose(R.T @ R, np.eye(3), atol=1e-10):
                raise Violation("rotate_xyz:not_orthogonal", f"angles {ang}")
            if abs(np.linalg.det(R) - 1.0) > 1e-10:
                raise Violation("rotate_xyz:improper", f"angles {ang}: det {np.linalg.det(R)}")
        ctx.label("rotate_xyz")
        ctx.nontrivial = True
        return
    res = gc.run_gen_coords(spec, ctx)
    if res.exc is not None:
        if isinstance(res.exc, (IOError, OSError)):
            raise Reject(str(res.exc)[:200])
        if gc.refused_outside_box(res.exc, spec):
            raise Reject("start structure with coordinates beyond its box")
        raise crash("gen_coords:crash", res.exc)
    c03.check_gro_listing(spec, res)
    fudge = spec["opts"].get("bfudge", 0.4)
    topo = res.topology
    n_chiral = 0
    n_backmapped = 0
    copies = {}
    for mi, meta in enumerate(topo.molecules):
        for node in meta.nodes:
            attrs = meta.nodes[node]
            if not attrs.get("backmap", False):
                continue
            n_backmapped += 1
            key = attrs["template"]
            template = meta.templates[key]
            atoms = list(attrs["graph"].nodes)
            names = [meta.molecule.nodes[a]["atomname"] for a in atoms]
            if sorted(names) != sorted(template.keys()):
                raise Violation("template:atom_names", f"residue ({mi},{node}) atoms {sorted(names)} template {sorted(template)}")
            P = np.array([meta.molecule.nodes[a]["position"] for a in atoms], dtype=float)
            T = np.array([template[nm] for nm in names], dtype=float)
            centre = np.array(attrs["position"], dtype=float)
            if np.max(np.abs(P.mean(axis=0) - centre)) > 1e-8:
                raise Violation("centre_of_geometry", f"residue ({mi},{node}) {attrs['resname']}: atoms centre "
                                                      f"{P.mean(axis=0)} residue position {centre}")
            if fudge == 0:
                # factor 0: every atom sits on the residue position
                if np.max(np.abs(P - centre)) > 1e-9:
                    raise Violation("not_congruent", f"residue ({mi},{node}): backmapping factor 0 but atoms up to "
                                                     f"{np.max(np.abs(P - centre)):.4f} nm from the residue position")
                continue
            X = (P - centre) / fudge
            # all copies of a residue type, in whatever molecule, are congruent: same distance matrix (atoms by name)
            order = np.argsort(names)
            dmat = np.linalg.norm(X[order][:, None, :] - X[order][None, :, :], axis=-1)
            if key in copies:
                ref_where, ref = copies[key]
                if ref.shape != dmat.shape or np.max(np.abs(ref - dmat)) > 1e-6:
                    raise Violation("copies_not_congruent", f"residue ({mi},{node}) {attrs['resname']} and residue {ref_where} are of "
                                                            f"the same type but their atom-atom distances differ by up to "
                                                            f"{np.max(np.abs(ref - dmat)) if ref.shape == dmat.shape else float('nan'):.5f} nm")
            else:
                copies[key] = ((mi, node), dmat)
            # distances first (catches scaling), then the proper rotation
            for i, j in itertools.combinations(range(len(atoms)), 2):
                dt = np.linalg.norm(T[i] - T[j])
                dx = np.linalg.norm(X[i] - X[j])
                if abs(dt - dx) > 1e-7:
                    raise Violation("not_congruent", f"residue ({mi},{node}) atoms {names[i]},{names[j]}: distance "
                                                     f"{dx * fudge:.6f} expected {dt * fudge:.6f} (factor {fudge})")
            R, resid, rank = kabsch(T - T.mean(axis=0), X)
            if resid > 1e-6:
                kind = "reflected_or_mismatched" if rank == 3 else "mismatched"
                raise Violation(f"not_a_proper_rotation", f"residue ({mi},{node}) {attrs['resname']}: best proper rotation leaves "
                                                          f"rms {resid:.3e} ({kind}; per-atom vectors by name)")
            if noncoplanar(T) and meta.degree(node) >= 1:
                n_chiral += 1
    user = spec.get("user_templates") or {}
    # user template used unchanged (centred)
    for mi, meta in enumerate(topo.molecules):
        for node in meta.nodes:
            rn = meta.nodes[node]["resname"]
            if rn in user and meta.nodes[node].get("backmap"):
                key = meta.nodes[node]["template"]
                tmpl = meta.templates[key]
                resdef = [r for mt in spec["moltypes"] for r in mt["residues"] if r["resname"] == rn][0]
                pts = np.array(user[rn]["coords"], dtype=float)
                pts = pts - pts.mean(axis=0)
                for at, p in zip(resdef["atoms"], pts):
                    if np.max(np.abs(np.array(tmpl[at["name"]]) - p)) > 1e-9:
                        raise Violation("user_template_changed", f"residue {rn} atom {at['name']}: template vector "
                                                                 f"{tmpl[at['name']]} expected {p}")
    if user:
        ctx.label("user_template")
    if spec.get("twin_template"):
        ctx.label("two_template_entries_same_atoms_and_bonds")
    if spec.get("coords"):
        ctx.label("backmap_only_residues")
        if spec["coords"].get("also_atoms"):
            ctx.label("centres_and_atom_positions_supplied")
    if n_chiral:
        ctx.label("chiral_residue")
    if spec.get("shared_resids") and any(len(set(mt.get("resids", []))) < len(mt.get("resids", [])) for mt in spec["moltypes"]):
        ctx.label("two_residues_one_number")
    ctx.nontrivial = n_chiral >= 1
