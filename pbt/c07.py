"""C07 - build-file restraints hold for every residue they select."""
import numpy as np
import networkx as nx
import hypothesis.strategies as st

from . import gc, c03
from .core import Violation, Reject, crash

PID = "C07"
LEVEL = "exploration"
RULE = ("generated systems plus build files mixing sphere / cylinder / rectangle in|out restraints per residue "
        "name and half-open resid range, rw_restriction cones, explicit distance_restraints (with / without "
        "tolerance), persistence_length batches (linear and branched molecules; the steps behind the contour length are judged from the input) and -cycles rings of 4-12 residues with -cycle_tol; regions are "
        "sized from the box so that the draws are satisfiable. From the residue positions captured after "
        "BuildSystem every selected, generated residue is tested with independent predicates R5; cone "
        "restrictions are evaluated on the minimum-image step from the growth predecessor; restrained pairs must "
        "end within [d - tol, d + tol + average pair size]; ring closure is tested on the ring edge that the "
        "growth tree does not use; sampled end-to-end distances (captured) must lie in [one step, contour "
        "length]. non-trivial = a restraint selecting >=2 generated residues, a ring >= 6, or a restricted step "
        "across a box face; distinct = spec hash")
ASSUMPTIONS = ["'average residue-pair size' is accepted as the larger of the tree average and the path average",
               "positive cone angles only; geometry predicates use a 1e-9 tolerance",
               "unsatisfiable draws end as time-outs (inconclusive), never as violations"]
BUDGET = {"quick": (16, 45), "thorough": (16, 1200)}


@st.composite
def _two_rings(draw):
    """two cyclic molecule types whose residues differ strongly in size (each type has its own step length,
    hence its own bound on the closing distance); the one with the large residues comes first or second"""
    big = {"resname": "RA", "atoms": [{"name": f"a{i + 1}", "type": "TA", "mass": 72.0} for i in range(3)],
           "bonds": [[0, 1, 0.35], [1, 2, 0.35]], "vs": None}
    small = {"resname": "RB", "atoms": [{"name": "b1", "type": "TB", "mass": 36.0}], "bonds": [], "vs": None}
    moltypes = []
    for name, res in (("MA", big), ("MB", small)):
        n = draw(st.integers(5, 10))
        moltypes.append({"name": name, "residues": [res] * n, "shape": "ring", "nrexcl": 1,
                         "res_edges": [[i, i + 1] for i in range(n - 1)] + [[n - 1, 0]]})
    order = ["MA", "MB"] if draw(st.integers(0, 2)) > 0 else ["MB", "MA"]
    molecules = [[order[0], 1], [order[1], draw(st.integers(1, 2))]]
    tol = draw(st.sampled_from([0.0, 0.05, 0.2]))
    spec = {"rng": draw(st.integers(0, 2**31 - 1)), "comb": 2,
            "atomtypes": [{"name": "TA", "mass": 72.0, "sigma": 0.6, "eps": 2.0}, {"name": "TB", "mass": 36.0, "sigma": 0.2, "eps": 2.0}],
            "moltypes": moltypes, "molecules": molecules, "coords": None, "build": None}
    edge = gc.dilute_box(spec) + 1.0
    spec["opts"] = {"box": [edge, edge, edge], "cycles": list(draw(st.permutations(["MA", "MB"]))), "cycle_tol": tol}
    spec["restraints"] = [{"kind": "cycle", "mol": "MA", "tol": tol}, {"kind": "cycle", "mol": "MB", "tol": tol}]
    spec["kind"] = "cycle"
    return spec


@st.composite
def _strategy(draw):
    kind = draw(st.sampled_from(["geom", "geom", "geom", "cone", "dist", "dist2", "cycle", "persist", "two_rings"]))
    if kind == "two_rings":
        return draw(_two_rings())
    if kind == "cycle":
        spec = draw(gc.system(max_moltypes=2, max_res=12, min_res=4, shapes=("ring",), max_total_mol=3,
                              allow_vs=False))
    elif kind == "persist":
        # also branched molecules: the contour runs along the residues between the two ends, side residues do not count
        spec = draw(gc.system(max_moltypes=2, max_res=10, min_res=4, shapes=("linear", "linear", "branched"), max_total_mol=3,
                              allow_vs=False))
        import networkx as _nx
        for _mt in spec["moltypes"]:
            # a persistence length needs a few steps to be sampled over: compact branched shapes (no residue three
            # steps away from residue 0) are laid out as chains instead
            _d = _nx.single_source_shortest_path_length(_nx.Graph([tuple(e) for e in _mt["res_edges"]]), 0)
            if max(_d.values()) < 3:
                _mt["res_edges"] = [[i, i + 1] for i in range(len(_mt["residues"]) - 1)]
                _mt["shape"] = "linear"
    elif kind in ("dist", "cone"):
        spec = draw(gc.system(max_moltypes=2, max_res=10, min_res=4, shapes=("linear",), max_total_mol=3,
                              allow_vs=False))
    elif kind == "dist2":
        spec = draw(gc.system(max_moltypes=1, max_res=10, min_res=7, shapes=("linear",), max_total_mol=2,
                              allow_vs=False))
    else:
        spec = draw(gc.system(max_res=8, max_total_mol=4))
    by_name = {mt["name"]: mt for mt in spec["moltypes"]}
    edge = gc.dilute_box(spec) + 1.0
    near_face = kind == "geom" and draw(st.integers(0, 2)) == 0
    if (kind == "cone" and draw(st.booleans())) or near_face:
        edge = max(3.5, edge - 3.0)           # smaller box: restricted steps cross faces
    box = [edge, edge, edge]
    opts = {"box": box}
    build = []
    mol_names = [n for n, c in spec["molecules"] for _ in range(c)]
    restraints = []
    name = draw(st.sampled_from(sorted(set(mol_names))))
    idxs = [i for i, n in enumerate(mol_names) if n == name]
    # the index range stays inside one run of molecules with this name (ranges that also cover
    # other names belong to C18)
    first = draw(st.sampled_from(idxs))
    run_end = first
    while run_end + 1 < len(mol_names) and mol_names[run_end + 1] == name:
        run_end += 1
    lo = first
    hi = draw(st.integers(lo + 1, run_end + 1))
    mt = by_name[name]
    nres = len(mt["residues"])
    wall = kind == "geom" and near_face and draw(st.booleans())
    if wall:
        # a forbidden slab along one box face for every residue of the selected molecules: the only way into
        # it is a step across that face
        build += ["[ molecule ]", f"{name} {lo} {hi}"]
        axis = draw(st.integers(0, 2))
        side = draw(st.booleans())
        centre = [edge / 2.0] * 3
        centre[axis] = round(edge - 0.3, 2) if side else 0.3
        params = [float(edge)] * 3
        params[axis] = 0.3
        for resname in sorted({r["resname"] for r in mt["residues"]}):
            build += ["[ rectangle ]", f"{resname} 1 {nres + 1} out " + " ".join(repr(float(c)) for c in centre)
                      + " " + " ".join(repr(float(p)) for p in params)]
            restraints.append({"kind": "rectangle", "mol": name, "lo": lo, "hi": hi, "resname": resname, "r0": 1, "r1": nres + 1,
                               "inout": "out", "centre": centre, "params": params})
    elif kind == "geom":
        build += ["[ molecule ]", f"{name} {lo} {hi}"]
        twice = draw(st.integers(0, 3)) == 0          # two restraints of one kind and flag on the same residues
        for num in range(2 if twice else draw(st.integers(1, 2))):
            if not (twice and num == 1):
                resname = draw(st.sampled_from(sorted({r["resname"] for r in mt["residues"]})))
                r0 = draw(st.integers(1, nres))
                r1 = draw(st.integers(r0 + 1, nres + 1))
                shape = draw(st.sampled_from(["sphere", "cylinder", "rectangle"]))
                inout = draw(st.sampled_from(["in", "out"]))
            if inout == "in":
                # regions of one kind differ in centre and size (two of them leave their overlap)
                centre = [round(edge / 2.0 + draw(st.sampled_from([-0.08, 0.0, 0.08])) * edge, 2) for _ in range(3)]
                size = round(max(1.5, draw(st.sampled_from([0.4, 0.34])) * edge), 2)
                if near_face:
                    # a region that reaches past a box face: a step across that face leaves the region
                    centre[draw(st.integers(0, 2))] = round(draw(st.sampled_from([0.2, 0.8])) * edge, 2)
            else:
                centre = [round(draw(st.sampled_from([0.25, 0.75])) * edge, 2) for _ in range(3)]
                # forbidden regions of several sizes, up to a good third of the box edge
                size = draw(st.sampled_from([s_ for s_ in [0.8, 1.0, 1.7, 2.4] if s_ <= max(1.0, 0.27 * edge)]
                                            + [round(0.38 * edge, 1)]))
                if near_face:
                    # a forbidden region that touches a box face: it can be entered by a step across the face
                    centre[draw(st.integers(0, 2))] = round(draw(st.sampled_from([0.04, 0.96])) * edge, 2)
            if shape == "sphere":
                params = [size]
            elif shape == "cylinder":
                params = [size, size]
            else:
                params = [size, size, size]
            build += [f"[ {shape} ]", f"{resname} {r0} {r1} {inout} " + " ".join(repr(float(c)) for c in centre)
                      + " " + " ".join(repr(float(p)) for p in params)]
            restraints.append({"kind": shape, "mol": name, "lo": lo, "hi": hi, "resname": resname, "r0": r0, "r1": r1,
                               "inout": inout, "centre": centre, "params": params})
        if draw(st.booleans()):
            # the walk starts at a residue named with -start: its own restraints hold for the start placement too
            ridx = draw(st.integers(0, nres - 1))
            spec_text = f"{name}-{mt['residues'][ridx]['resname']}#{ridx + 1}"
            if draw(st.booleans()):
                spec_text = f"{name}#{draw(st.integers(lo, hi - 1))}-{mt['residues'][ridx]['resname']}#{ridx + 1}"
            opts["start"] = [spec_text]
    elif kind == "cone":
        build += ["[ molecule ]", f"{name} {lo} {hi}"]
        resname = draw(st.sampled_from(sorted({r["resname"] for r in mt["residues"]})))
        normal = draw(st.sampled_from([[0.0, 0.0, 1.0], [1.0, 0.0, 0.0], [0.0, -1.0, 0.0], [1.0, 1.0, 0.0]]))
        angle = draw(st.sampled_from([60.0, 90.0, 120.0]))
        build += ["[ rw_restriction ]", f"{resname} 1 {nres + 1} " + " ".join(map(repr, normal)) + f" {angle!r}"]
        restraints.append({"kind": "cone", "mol": name, "lo": lo, "hi": hi, "resname": resname, "r0": 1, "r1": nres + 1,
                           "normal": normal, "angle": angle})
        if draw(st.booleans()):
            # the same molecules also get a (wide) geometric restraint: both kinds hold together
            size = round(0.45 * edge, 2)
            build += ["[ sphere ]", f"{resname} 1 {nres + 1} in " + " ".join(repr(float(edge / 2.0)) for _ in range(3)) + f" {size!r}"]
            restraints.append({"kind": "sphere", "mol": name, "lo": lo, "hi": hi, "resname": resname, "r0": 1, "r1": nres + 1,
                               "inout": "in", "centre": [edge / 2.0] * 3, "params": [size]})
    elif kind == "dist":
        build += ["[ molecule ]", f"{name} {lo} {hi}"]
        a = draw(st.integers(0, nres - 3))
        b = draw(st.integers(a + 2, nres - 1))
        dist = round(draw(st.sampled_from([0.6, 0.9, 1.2])) * min(1.0, (b - a) * 0.2) + 0.2, 2)
        tol = draw(st.sampled_from([None, 0.1, 0.3]))
        build += ["[ distance_restraints ]", f"{a} {b} {dist!r}" + ("" if tol is None else f" {tol!r}")]
        restraints.append({"kind": "dist", "mol": name, "lo": lo, "hi": hi, "a": a, "b": b, "dist": dist,
                           "tol": tol or 0.0})
        if draw(st.integers(0, 2)) == 0:
            # one of the restrained molecules is grown from a residue in its middle (-start with a molecule index)
            ridx = draw(st.integers(1, nres - 1))
            opts["start"] = [f"{name}#{draw(st.integers(lo, hi - 1))}-{mt['residues'][ridx]['resname']}#{ridx + 1}"]
    elif kind == "dist2":
        # two distance restraints whose growth paths overlap, in either declaration order
        build += ["[ molecule ]", f"{name} {lo} {hi}"]
        a = 0
        b = draw(st.integers(3, nres - 3))
        c = draw(st.sampled_from([0, 1, 2]))
        d = nres - 1
        first = {"a": a, "b": b, "dist": round(0.15 * (b - a) + 0.15, 2), "tol": draw(st.sampled_from([0.1, 0.2]))}
        second = {"a": c, "b": d, "dist": round(0.12 * (d - c) + 0.2, 2), "tol": draw(st.sampled_from([0.3, 0.4]))}
        pair = [first, second] if draw(st.booleans()) else [second, first]
        build.append("[ distance_restraints ]")
        for r in pair:
            build.append(f"{r['a']} {r['b']} {r['dist']!r} {r['tol']!r}")
            restraints.append({"kind": "dist", "mol": name, "lo": lo, "hi": hi, "a": r["a"], "b": r["b"],
                               "dist": r["dist"], "tol": r["tol"]})
    elif kind == "persist":
        lp = draw(st.sampled_from([0.5, 1.0, 2.0]))
        # the far end: the last residue, or - in a branched molecule where that one is closer than three steps to
        # residue 0 - the residue farthest from residue 0 (a persistence length needs a few steps to be sampled over)
        import networkx as _nx
        _g = _nx.Graph([tuple(e) for e in mt["res_edges"]])
        _d = _nx.single_source_shortest_path_length(_g, 0)
        pend = nres - 1
        if _d[pend] < 3:
            pend = max(sorted(_d), key=lambda n: (_d[n], n))
        if hi - lo >= 2 and draw(st.booleans()):
            # two batches for molecules of the same name: two [ molecule ] blocks with their own index ranges and
            # persistence lengths
            mid = draw(st.integers(lo + 1, hi - 1))
            lp2 = draw(st.sampled_from([x for x in [0.5, 1.0, 2.0, 4.0] if x != lp]))
            build += ["[ molecule ]", f"{name} {lo} {mid}", "[ persistence_length ]", f"WCM {lp!r} 0 {pend}",
                      "[ molecule ]", f"{name} {mid} {hi}", "[ persistence_length ]", f"WCM {lp2!r} 0 {pend}"]
            restraints.append({"kind": "persist", "mol": name, "lo": lo, "hi": mid, "a": 0, "b": pend, "lp": lp, "batch": 0})
            restraints.append({"kind": "persist", "mol": name, "lo": mid, "hi": hi, "a": 0, "b": pend, "lp": lp2, "batch": 1})
        else:
            build += ["[ molecule ]", f"{name} {lo} {hi}"]
            build += ["[ persistence_length ]", f"WCM {lp!r} 0 {pend}"]
            restraints.append({"kind": "persist", "mol": name, "lo": lo, "hi": hi, "a": 0, "b": pend, "lp": lp})
        if draw(st.booleans()):
            # a box with one short edge (shorter than some of the sampled end-to-end distances)
            opts["box"] = [round(max(2.6, 0.3 * edge), 1), round(edge + 2.0, 1), round(edge + 2.0, 1)]
    else:
        # every ring-shaped molecule type of the system may be declared cyclic (types with other residue
        # sizes have other step lengths and therefore other bounds)
        ring_names = list(draw(st.permutations(sorted(set(mol_names)))))
        if draw(st.integers(0, 2)) == 0:
            ring_names = [name]
        opts["cycles"] = ring_names
        opts["cycle_tol"] = draw(st.sampled_from([0.0, 0.2, 0.5]))
        for rn in ring_names:
            if rn != name:
                restraints.append({"kind": "cycle", "mol": rn, "tol": opts["cycle_tol"]})
        if draw(st.booleans()):
            # one copy of the ring is grown from another residue than the others (its closing edge differs)
            copy_idx = draw(st.sampled_from(idxs))
            ridx = draw(st.integers(1, nres - 1))
            opts["start"] = [f"{name}#{copy_idx}-{mt['residues'][ridx]['resname']}#{ridx + 1}"]
        restraints.append({"kind": "cycle", "mol": name, "tol": opts["cycle_tol"]})
    if kind == "geom" and "start" not in opts and nres >= 2 and not mt.get("resids") and draw(st.booleans()):
        # the residue ids of the restrained molecule do not ascend along its atom list (a fragment numbered
        # k+1..n comes first, then 1..k): the ranges select by residue id all the same
        k = draw(st.integers(1, nres - 1))
        r1s = [r["r1"] for r in restraints if r.get("mol") == name and "r1" in r]
        if r1s and min(r1s) - 1 <= nres - 1 and draw(st.booleans()):
            # a restrained range that lies entirely in the fragment listed second
            k = draw(st.integers(max(1, min(r1s) - 1), nres - 1))
        mt["resids"] = list(range(k + 1, nres + 1)) + list(range(1, k + 1))
        spec["rotated_resids"] = True
    spec["build"] = build or None
    spec["opts"] = opts
    spec["restraints"] = restraints
    spec["kind"] = kind
    return spec


def strategy(tier):
    return _strategy()


def min_image(vec, box):
    return vec - box * np.round(vec / box)


def satisfied(r, point):
    c = np.array(r["centre"], dtype=float)
    d = point - c
    eps = 1e-9
    if r["kind"] == "sphere":
        dist = float(np.linalg.norm(d))
        return dist <= r["params"][0] + eps if r["inout"] == "in" else dist >= r["params"][0] - eps
    if r["kind"] == "cylinder":
        rad = float(np.linalg.norm(d[:2]))
        inside = rad <= r["params"][0] + eps and abs(d[2]) <= r["params"][1] + eps
        strictly_inside = rad < r["params"][0] - eps and abs(d[2]) < r["params"][1] - eps
        return inside if r["inout"] == "in" else not strictly_inside
    if r["kind"] == "rectangle":
        inside = all(abs(d[i]) <= r["params"][i] + eps for i in range(3))
        strictly_inside = all(abs(d[i]) < r["params"][i] - eps for i in range(3))
        return inside if r["inout"] == "in" else not strictly_inside
    raise ValueError(r["kind"])


def check(spec, ctx):
    import polyply.src.persistence as pers
    captured = []
    orig_gen = pers.generate_end_end_distances

    def wrapped(specs, avg_step_length, max_path_length, box, **kw):
        out = orig_gen(specs, avg_step_length, max_path_length, box, **kw)
        captured.append((np.array(out, dtype=float), float(avg_step_length), float(max_path_length)))
        return out

    pers.generate_end_end_distances = wrapped
    try:
        res = gc.run_gen_coords(spec, ctx, timeout=8)
    finally:
        pers.generate_end_end_distances = orig_gen
        # whatever became of the build: the number of steps a contour length was computed over is the number of
        # residue-graph edges between the two ends (judged from the input alone)
        for r in spec["restraints"]:
            if r["kind"] == "persist" and len(captured) > r.get("batch", 0):
                _s, avg_step, contour = captured[r.get("batch", 0)]
                mt = [m for m in spec["moltypes"] if m["name"] == r["mol"]][0]
                want = nx.shortest_path_length(nx.Graph([tuple(e) for e in mt["res_edges"]]), r["a"], r["b"])
                if avg_step > 0 and round(contour / avg_step) != want:
                    raise Violation("persistence:contour_steps", f"contour length {contour:.4f} nm over steps of {avg_step:.4f} nm: "
                                                                 f"{round(contour / avg_step)} steps, but residues {r['a']} and {r['b']} are {want} apart")
    if res.exc is not None:
        if isinstance(res.exc, (IOError, OSError)):
            raise Reject(str(res.exc)[:200])
        if gc.refused_outside_box(res.exc, spec):
            raise Reject("start structure with coordinates beyond its box")
        raise crash("gen_coords:crash", res.exc)
    c03.check_gro_listing(spec, res)
    topo = res.topology
    engine = res.engine
    box = np.array(engine.boxsize, dtype=float)
    mol_names = [n for n, c in spec["molecules"] for _ in range(c)]
    nontrivial = False

    def size(mi, node):
        meta = topo.molecules[mi]
        return topo.volumes[meta.nodes[node].get("template", meta.nodes[node]["resname"])]

    def avg_sizes(mi, a=None, b=None):
        meta = topo.molecules[mi]
        tree_edges = list(meta.search_tree.edges)
        tree_avg = np.mean([0.5 * (size(mi, u) + size(mi, v)) for u, v in tree_edges]) if tree_edges else 0.0
        if a is None:
            return tree_avg, tree_avg
        path = nx.shortest_path(meta, a, b)
        path_avg = np.mean([0.5 * (size(mi, u) + size(mi, v)) for u, v in zip(path[:-1], path[1:])])
        return tree_avg, path_avg

    for r in spec["restraints"]:
        if r["kind"] in ("sphere", "cylinder", "rectangle", "cone"):
            nsel = 0
            for mi, mname in enumerate(mol_names):
                if mname != r["mol"] or not (r["lo"] <= mi < r["hi"]):
                    continue
                meta = topo.molecules[mi]
                for node in meta.nodes:
                    at = meta.nodes[node]
                    if at["resname"] != r["resname"] or not (r["r0"] <= at["resid"] < r["r1"]):
                        continue
                    if not at.get("build", True):
                        continue
                    pos = res.after_build[mi][node]
                    if r["kind"] == "cone":
                        preds = list(meta.search_tree.predecessors(node))
                        if not preds:
                            continue
                        step = min_image(pos - res.after_build[mi][preds[0]], box)
                        raw = pos - res.after_build[mi][preds[0]]
                        normal = np.array(r["normal"], dtype=float)
                        cosang = float(np.dot(normal, step) / (np.linalg.norm(normal) * np.linalg.norm(step)))
                        ang = float(np.degrees(np.arccos(np.clip(cosang, -1, 1))))
                        nsel += 1
                        crossed = bool(np.any(np.abs(raw - step) > 1e-9))
                        if crossed:
                            ctx.label("restricted_step_across_face")
                            nontrivial = True
                        if ang > r["angle"] + 1e-6 or (np.dot(normal, step) <= 0 and r["angle"] <= 90.0 + 1e-9 and ang > r["angle"] + 1e-6):
                            raise Violation("direction_restriction", f"residue ({mi},{node}) grown from {preds[0]}: step {step} makes "
                                                                     f"{ang:.2f} deg with {normal}, allowed {r['angle']} (crossed face: {crossed})")
                    else:
                        nsel += 1
                        if not satisfied(r, pos):
                            raise Violation(f"geometry:{r['kind']}_{r['inout']}", f"residue ({mi},{node}) {at['resname']}{at['resid']} at {pos} "
                                                                                  f"violates {r['kind']} {r['inout']} centre {r['centre']} params {r['params']}")
            if nsel >= 2:
                nontrivial = True
            if nsel:
                ctx.label("selected_" + r["kind"])
        elif r["kind"] in ("dist", "persist"):
            batch = [mi for mi, mname in enumerate(mol_names) if mname == r["mol"] and r["lo"] <= mi < r["hi"]]
            for k, mi in enumerate(batch):
                pa, pb = res.after_build[mi][r["a"]], res.after_build[mi][r["b"]]
                d = float(np.linalg.norm(min_image(pa - pb, box)))
                tree_avg, path_avg = avg_sizes(mi, r["a"], r["b"])
                slack = max(tree_avg, path_avg)
                if r["kind"] == "dist":
                    want, tol = r["dist"], r["tol"]
                else:
                    bidx = r.get("batch", 0)
                    if len(captured) <= bidx:
                        raise Violation("persistence:not_sampled", f"end-to-end distances were sampled for {len(captured)} batch(es); "
                                                                   f"the build file declares batch {bidx + 1} (persistence length {r['lp']})")
                    if "batch" in r:
                        ctx.label("two_persistence_batches_one_name")
                    samples, avg_step, contour = captured[bidx]
                    # the contour length is that of the residues between the two ends: one step (mean of the two
                    # sizes) per edge of the path that joins them
                    npath = len(nx.shortest_path(topo.molecules[mi], r["a"], r["b"])) - 1
                    if abs(contour - path_avg * npath) > 1e-6 * max(1.0, contour):
                        raise Violation("persistence:contour_length", f"end-to-end distances sampled for a contour of {contour:.4f} nm; "
                                                                      f"the {npath} steps between residues {r['a']} and {r['b']} span {path_avg * npath:.4f} nm")
                    if npath < len(topo.molecules[mi].nodes) - 1:
                        ctx.label("persistence_on_branched_molecule")
                    for s in samples:
                        if s < avg_step - 1e-9 or s > contour + 1e-9:
                            raise Violation("persistence:sample_out_of_range", f"sampled end-to-end distance {s} outside [{avg_step}, {contour}]")
                    if k >= len(samples):
                        raise Violation("persistence:fewer_samples_than_molecules",
                                        f"{len(samples)} end-to-end distances were sampled for a batch of {len(batch)} molecules")
                    want, tol = float(samples[k]), 0.0
                if d < want - tol - 1e-6 or d > want + tol + slack + 1e-6:
                    raise Violation(f"distance:{r['kind']}", f"molecule {mi} residues {r['a']},{r['b']} end {d:.4f} nm apart; "
                                                             f"allowed [{want - tol:.4f}, {want + tol + slack:.4f}] (d={want}, tol={tol}, avg size {slack:.4f})")
                nontrivial = True
                ctx.label("restrained_pair_" + r["kind"])
        elif r["kind"] == "cycle":
            for mi, mname in enumerate(mol_names):
                if mname != r["mol"]:
                    continue
                meta = topo.molecules[mi]
                tree = {frozenset(e) for e in meta.search_tree.edges}
                closing = [e for e in meta.edges if frozenset(e) not in tree]
                if len(closing) != 1:
                    raise Violation("cycle:tree", f"molecule {mi}: growth tree leaves {len(closing)} ring edges unused")
                u, v = closing[0]
                d = float(np.linalg.norm(min_image(res.after_build[mi][u] - res.after_build[mi][v], box)))
                tree_avg, path_avg = avg_sizes(mi)
                pair = 0.5 * (size(mi, u) + size(mi, v))
                slack = max(tree_avg, pair)
                if d > r["tol"] + slack + 1e-6:
                    raise Violation("cycle:not_closed", f"molecule {mi}: residues {u},{v} joined by the closing edge end {d:.4f} nm apart, "
                                                        f"allowed {r['tol'] + slack:.4f} (tol {r['tol']}, avg size {slack:.4f})")
                if len(meta) >= 6:
                    nontrivial = True
                ctx.label("ring_closed")
    ctx.label("kind_" + spec["kind"])
    if spec.get("rotated_resids"):
        ctx.label("residue_ids_not_ascending")
    ctx.nontrivial = nontrivial
