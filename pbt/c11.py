"""C11 - generated .itp files are written and re-read to the same molecule."""
import networkx as nx
import hypothesis.strategies as st

from . import gp, gpcheck, model as mdl
from .core import Violation, Reject, crash
from .itp import inter_multiset

PID = "C11"
LEVEL = "exploration"
RULE = ("Hypothesis-generated force fields (1-3 blocks, .ff and polyply .itp syntax, links, dangling "
        "interactions, #ifdef metas) x residue graphs (linear/tree/ring, 1-8 residues, any start resid, "
        "permuted node keys) through gen_params; non-trivial = >=3 residues and >=1 link interaction "
        "in the written file; distinct = distinct canonical spec hash")
ASSUMPTIONS = ["the independent .itp reader in pbt/itp.py", "vermouth 0.15.0 / networkx 3.6.1 as installed",
               "inter-residue connections that are only angles/dihedrals are not expected to be "
               "recovered as residue-graph edges (an .itp carries edges through bonds/constraints)"]
RULE += (' The interaction lines of the molecule as it stands after links and modifications (captured) must equal the lines handed to the writer.')
BUDGET = {"quick": (16, 150), "thorough": (16, 4000)}


@st.composite
def _strategy(draw):
    spec = draw(gp.case(max_res=8))
    if draw(st.integers(0, 3)) == 0:
        # parameters given as macro names (gb_27 style): the file carries the names, and reading it back next to
        # a topology that defines those macros still yields the names
        macros = ["gb_1", "ga_2"]
        for blk in spec["blocks"]:
            for it in blk["inter"]:
                if it["sec"] in ("bonds", "angles") and not it["meta"] and draw(st.integers(0, 2)) == 0:
                    it["params"] = [it["params"][0], macros[0] if it["sec"] == "bonds" else macros[1]]
        spec["macro_params"] = True
    return spec


def strategy(tier):
    return _strategy()


EXHAUSTIVE = False
LIBRARY_TESTS = "/repo/polyply/tests/test_data/library_tests"


def enumerate_cases(tier, seed):
    """the repository's library integration inputs (28 force-field / polymer combinations): the same
    round trip on real force fields; they come from the `command` files next to the reference outputs"""
    import glob
    import shlex
    cases = []
    for cmd_file in sorted(glob.glob(f"{LIBRARY_TESTS}/*/*/polyply/command")):
        tokens = shlex.split(open(cmd_file).read().split("\n")[0])
        lib, seq, seqf, extra, name, dsdna = None, [], None, [], "mol", False
        i = 2
        while i < len(tokens):
            tok = tokens[i]
            if tok == "-lib":
                lib = tokens[i + 1]; i += 2
            elif tok == "-seq":
                i += 1
                while i < len(tokens) and not tokens[i].startswith("-"):
                    seq.append(tokens[i]); i += 1
            elif tok == "-seqf":
                seqf = tokens[i + 1]; i += 2
            elif tok == "-f":
                extra.append(tokens[i + 1]); i += 2
            elif tok == "-name":
                name = tokens[i + 1]; i += 2
            elif tok == "-dsdna":
                dsdna = True; i += 1
            else:
                i += 2 if tok == "-o" else 1
        cases.append({"library": {"dir": cmd_file.rsplit("/", 1)[0], "lib": lib, "seq": seq, "seqf": seqf,
                                  "extra": extra, "name": name, "dsdna": dsdna}, "rng": 1})
    return cases


def run_library(spec, ctx):
    """gen_params on a library case; returns a gp.Run-like object with the written text and the built molecule"""
    import os
    import logging
    import vermouth.gmx.itp as vitp
    from pathlib import Path
    from polyply.src.gen_itp import gen_params
    from . import core
    lib = spec["library"]
    base = Path(lib["dir"])
    run = gp.Run()
    out = ctx.dir / "out.itp"
    orig_write = vitp.write_molecule_itp

    def write_wrapper(molecule, *args, **kw):
        run.captured["molecule"] = molecule
        return orig_write(molecule, *args, **kw)

    vitp.write_molecule_itp = write_wrapper
    try:
        gen_params(name="mol", outpath=out, inpath=[(base / f).resolve() for f in lib["extra"]], lib=[lib["lib"]],
                   seq=lib["seq"] or None, seq_file=(base / lib["seqf"]).resolve() if lib["seqf"] else None,
                   dsdna=lib["dsdna"])
    except Exception as err:
        run.exc = err
    finally:
        vitp.write_molecule_itp = orig_write
    run.out_exists = out.exists()
    run.text = out.read_text() if run.out_exists else None
    run.warnings = [r for r in core._COLLECTOR.records if r[0] >= logging.WARNING]
    return run


TOP = """[ defaults ]
1 1 no 1.0 1.0
#define gb_1 0.153 7150000.0
#define ga_2 109.5 520.0
[ atomtypes ]
T1 36.0 0.0 A 0.3 1.0
T2 36.0 0.0 A 0.3 1.0
T3 36.0 0.0 A 0.3 1.0
T4 36.0 0.0 A 0.3 1.0
#include "out.itp"
[ system ]
test
[ molecules ]
mol 2
"""


def check(spec, ctx):
    if "library" in spec:
        return check_library(spec, ctx)
    pre = mdl.expected(spec)
    if pre.invalid:
        from .core import Reject
        raise Reject(pre.invalid)
    run, written = gpcheck.execute(spec, ctx, clause="written")
    molecule = run.captured.get("molecule")
    if molecule is None:
        raise Violation("written:capture", "molecule not captured")
    built_atoms, built_inter = gpcheck.molecule_tables(molecule)
    # the interaction lines of the molecule as it stood when links and modifications had been applied are the
    # lines of the molecule that is handed to the writer
    then = run.captured.get("built_lines")
    if then is not None:
        now = sorted((sec, tuple(str(a) for a in it.atoms), tuple(str(p_) for p_ in it.parameters),
                      str((it.meta or {}).get("ifdef")), str((it.meta or {}).get("ifndef")))
                     for sec, items in molecule.interactions.items() for it in items)
        if then != now:
            from collections import Counter
            gone = list((Counter(then) - Counter(now)).elements())[:3]
            new_ = list((Counter(now) - Counter(then)).elements())[:3]
            raise Violation("built_vs_handed_to_writer", f"{len(then)} lines built, {len(now)} written; "
                                                         f"dropped={gone} new={new_}")
    # (a) file == built molecule, through the independent reader
    err = gpcheck.same_atoms(written["atoms"], built_atoms)
    if err:
        raise Violation("file_vs_built:atoms", err)
    err = gpcheck.diff_multisets(inter_multiset(written["inter"]), inter_multiset(built_inter))
    if err:
        raise Violation("file_vs_built:interactions", err)
    if written["nrexcl"] != molecule.nrexcl:
        raise Violation("file_vs_built:nrexcl", f"{written['nrexcl']} vs {molecule.nrexcl}")

    # (b) polyply's own topology reader
    from polyply.src.topology import Topology
    from polyply.src.meta_molecule import MetaMolecule
    import vermouth.forcefield
    top_text = TOP
    if spec.get("rng", 1) % 2 == 0:
        # the system topology defines one of the macros the generated file uses as a guard (a run with flexible
        # bonds or position restraints): the guards of the re-read molecule stay what they are
        tag = ["FLEX", "POSRES"][(spec["rng"] // 2) % 2]
        top_text = top_text.replace("[ atomtypes ]", f"#define {tag}\n[ atomtypes ]")
        ctx.label("guard_macro_defined_in_top")
    twin_case = spec.get("rng", 1) % 3 == 0
    if twin_case:
        # another molecule type whose name differs from the generated one in case only (MOL next to mol),
        # defined after it and listed after it
        top_text = top_text.replace("[ system ]", "[ moleculetype ]\nMOL 1\n[ atoms ]\n1 T1 1 ZZ Z1 1 0.0 72.0\n[ system ]")
        split_lines = spec.get("rng", 1) % 6 == 0
        if split_lines:
            # the generated type on two separate [ molecules ] lines with the other type between them
            top_text = top_text.replace("mol 2\n", "mol 1\nMOL 1\nmol 1\n")
            ctx.label("molecule_type_listed_on_two_lines")
        else:
            top_text = top_text.replace("mol 2\n", "mol 2\nMOL 1\n")
        ctx.label("molecule_names_differing_in_case")
    (ctx.dir / "sys.top").write_text(top_text)
    # the process works in another directory that holds an older file of the same name: the include in
    # sys.top still means the file next to sys.top
    import os
    elsewhere = ctx.dir / "elsewhere"
    elsewhere.mkdir()
    (elsewhere / "out.itp").write_text("[ moleculetype ]\nmol 1\n[ atoms ]\n1 T1 1 OLD O1 1 0.0 72.0\n")
    here = os.getcwd()
    os.chdir(elsewhere)
    try:
        topology = Topology.from_gmx_topfile(str(ctx.dir / "sys.top"), "test")
    except Exception as err:
        raise crash("reread:topology_reader", err)
    finally:
        os.chdir(here)
    if twin_case:
        if split_lines and len(topology.molecules) == 3:
            topology.molecules = [topology.molecules[0], topology.molecules[2], topology.molecules[1]]
        if len(topology.molecules) != 3 or topology.molecules[2].mol_name != "MOL" or len(topology.molecules[2].molecule.nodes) != 1:
            raise Violation("reread:molecule_list", f"{[(m.mol_name, len(m.molecule.nodes)) for m in topology.molecules]} expected two copies "
                                                    f"of mol and the one-atom MOL")
        topology.molecules = topology.molecules[:2]
    if len(topology.molecules) != 2:
        raise Violation("reread:molecule_count", f"{len(topology.molecules)} molecules for a [ molecules ] count of 2")
    # every copy of the molecule is the molecule that was built
    for copy_idx, meta in enumerate(topology.molecules):
        re_atoms, re_inter = gpcheck.molecule_tables(meta.molecule)
        err = gpcheck.same_atoms(re_atoms, built_atoms)
        if err:
            raise Violation("reread:atoms", f"copy {copy_idx}: {err}")
        err = gpcheck.diff_multisets(inter_multiset(re_inter), inter_multiset(built_inter))
        if err:
            raise Violation("reread:interactions", f"copy {copy_idx}: {err}")
    meta = topology.molecules[1]
    # MetaMolecule.from_itp
    try:
        ff = vermouth.forcefield.ForceField("x")
        meta2 = MetaMolecule.from_itp(ff, ctx.dir / "out.itp", "mol")
    except Exception as err:
        raise crash("reread:from_itp", err)
    re2_atoms, re2_inter = gpcheck.molecule_tables(meta2.molecule)
    err = gpcheck.same_atoms(re2_atoms, built_atoms)
    if err:
        raise Violation("reread_from_itp:atoms", err)
    err = gpcheck.diff_multisets(inter_multiset(re2_inter), inter_multiset(built_inter))
    if err:
        raise Violation("reread_from_itp:interactions", err)
    # the same reader with a force-field object that already knows a molecule of this name (an older file
    # read before): what the reader returns is still the content of the file it is given
    (ctx.dir / "older.itp").write_text("[ moleculetype ]\nmol 1\n[ atoms ]\n1 T1 1 OLD O1 1 0.0 72.0\n")
    try:
        ff3 = vermouth.forcefield.ForceField("y")
        MetaMolecule.from_itp(ff3, ctx.dir / "older.itp", "mol")
        meta3 = MetaMolecule.from_itp(ff3, ctx.dir / "out.itp", "mol")
    except Exception as err:
        raise crash("reread:from_itp_known_name", err)
    re3_atoms, re3_inter = gpcheck.molecule_tables(meta3.molecule)
    err = gpcheck.same_atoms(re3_atoms, built_atoms)
    if err:
        raise Violation("reread_from_itp_known_name:atoms", err)
    err = gpcheck.diff_multisets(inter_multiset(re3_inter), inter_multiset(built_inter))
    if err:
        raise Violation("reread_from_itp_known_name:interactions", err)

    # (c) residue graph
    requested_nodes = {(n["resid"], n["resname"]) for n in spec["graph"]["nodes"]}
    by_id = {n["id"]: n["resid"] for n in spec["graph"]["nodes"]}
    requested_edges = {frozenset((by_id[u], by_id[v])) for u, v, _ in spec["graph"]["edges"]}
    for label, mm in (("topology", meta), ("from_itp", meta2)):
        got_nodes = {(mm.nodes[n]["resid"], mm.nodes[n]["resname"]) for n in mm.nodes}
        got_edges = {frozenset((mm.nodes[u]["resid"], mm.nodes[v]["resid"])) for u, v in mm.edges}
        missing = gpcheck.missing_link_warnings(run)
        if got_nodes != requested_nodes:
            raise Violation(f"resgraph_{label}:nodes", f"got {sorted(got_nodes)} want {sorted(requested_nodes)}")
        if not got_edges <= requested_edges:
            raise Violation(f"resgraph_{label}:extra_edges", f"{sorted(map(sorted, got_edges - requested_edges))}")
        if not missing:
            # every requested edge that is realised by a bond/constraint must be recovered
            resid_of = {a["idx"]: a["resid"] for a in written["atoms"]}
            bonded = set()
            for sec in ("bonds", "constraints"):
                for it in written["inter"].get(sec, []):
                    ra, rb = resid_of[it["atoms"][0]], resid_of[it["atoms"][1]]
                    if ra != rb:
                        bonded.add(frozenset((ra, rb)))
            lost = (requested_edges & bonded) - got_edges
            if lost:
                raise Violation(f"resgraph_{label}:lost_edges", f"{sorted(map(sorted, lost))}")
            if requested_edges <= bonded:
                ctx.label("graph_fully_recovered")
                if got_edges != requested_edges:
                    raise Violation(f"resgraph_{label}:not_isomorphic", "edge sets differ")
    # classification
    nres = len(spec["graph"]["nodes"])
    first_of = {}
    for a in written["atoms"]:
        first_of.setdefault(a["resid"], a["idx"])
    resid_of = {a["idx"]: a["resid"] for a in written["atoms"]}
    cross = sum(1 for sec, items in written["inter"].items() for it in items
                if len({resid_of[x] for x in it["atoms"]}) > 1)
    guarded = sum(1 for sec, items in written["inter"].items() for it in items if it["guard"])
    if guarded:
        ctx.label("guarded_interaction")
    if cross:
        ctx.label("link_applied")
    if spec["graph"]["kind"] != "linear":
        ctx.label("shape_" + spec["graph"]["kind"])
    if any(b["syntax"] == "itp" for b in spec["blocks"]):
        ctx.label("itp_syntax")
    ctx.nontrivial = nres >= 3 and cross >= 1


def check_library(spec, ctx):
    from .itp import read_itp
    from polyply.src.meta_molecule import MetaMolecule
    import vermouth.forcefield
    run = run_library(spec, ctx)
    tag = spec["library"]["dir"].split("library_tests/")[1].rsplit("/polyply", 1)[0]
    if run.exc is not None:
        raise crash(f"library:{tag}:crash", run.exc)
    if not run.out_exists:
        raise Violation(f"library:{tag}:no_output", "no file written")
    written = read_itp(run.text)[0]
    molecule = run.captured.get("molecule")
    built_atoms, built_inter = gpcheck.molecule_tables(molecule)
    err = gpcheck.same_atoms(written["atoms"], built_atoms)
    if err:
        raise Violation("library:file_vs_built:atoms", f"{tag}: {err}")
    err = gpcheck.diff_multisets(inter_multiset(written["inter"]), inter_multiset(built_inter))
    if err:
        raise Violation("library:file_vs_built:interactions", f"{tag}: {err}")
    try:
        ff = vermouth.forcefield.ForceField("x")
        meta2 = MetaMolecule.from_itp(ff, ctx.dir / "out.itp", "mol")
    except Exception as exc:
        raise crash(f"library:{tag}:reread_crash", exc)
    re_atoms, re_inter = gpcheck.molecule_tables(meta2.molecule)
    err = gpcheck.same_atoms(re_atoms, built_atoms)
    if err:
        raise Violation("library:reread:atoms", f"{tag}: {err}")
    err = gpcheck.diff_multisets(inter_multiset(re_inter), inter_multiset(built_inter))
    if err:
        raise Violation("library:reread:interactions", f"{tag}: {err}")
    resids = sorted({a["resid"] for a in written["atoms"]})
    got_nodes = sorted(meta2.nodes[n]["resid"] for n in meta2.nodes)
    if got_nodes != resids:
        raise Violation("library:reread:residues", f"{tag}: residues {got_nodes[:5]}.. vs {resids[:5]}..")
    if not gpcheck.missing_link_warnings(run) and not spec["library"]["dsdna"] and \
            not __import__("networkx").is_connected(meta2):
        raise Violation("library:reread:disconnected", f"{tag}: no link was reported missing but the re-read residue graph is disconnected")
    ctx.label("library_case")
    ctx.nontrivial = len(resids) >= 3
