"""Show a replay spec as rendered input files + output of gen_params. usage: tools/show.py replay.json"""
import sys, json, os, warnings
warnings.filterwarnings("ignore")
os.environ["TQDM_DISABLE"] = "1"
sys.path.insert(0, "/verif")
from pbt import gp, core
spec = json.load(open(sys.argv[1]))
if "spec" in spec and "bucket" in spec:
    print("BUCKET", spec["bucket"], "\nMSG", spec["message"]); spec = spec["spec"]
core.install_log_capture()
ctx = core.Ctx(core.WORK / "show", 0)
core.reset_global_state(ctx, spec.get("rng", 0))
run = gp.run_gen_params(spec, ctx)
for f in sorted(ctx.dir.iterdir()):
    if f.name.startswith("f") or f.name.startswith("seq"):
        print("=====", f.name); print(f.read_text())
print("===== exc:", repr(run.exc))
print("===== warnings:", [w[2] for w in run.warnings])
print("===== output"); print(run.text)
core.finish_case(ctx)
