#!/bin/bash
# Runs the repository's pinned baseline (guard OFF) and compares against BASELINE.json stable_pass.
# usage: tools/baseline.sh [repo_dir]
REPO=${1:-/repo}
OUT=$(mktemp -d /var/tmp/bl.XXXXXX)
cd "$REPO" || exit 2
env -u POLYPLY_VERIF /venv/bin/python -m pytest -q -p no:cacheprovider --timeout=900 --continue-on-collection-errors -n 8 --junitxml=$OUT/r.xml > $OUT/log 2>&1
/venv/bin/python - "$OUT/r.xml" <<'P'
import sys, json, xml.etree.ElementTree as ET
bl = json.load(open('/root/.vp/BASELINE.json'))
want = set(bl['stable_pass'])
got = set()
for tc in ET.parse(sys.argv[1]).getroot().iter('testcase'):
    if not any(ch.tag in ('failure','error','skipped') for ch in tc):
        got.add(tc.get('classname') + '::' + tc.get('name'))
missing = sorted(want - got)
print(f"baseline: stable_pass={len(want)} passing_now={len(want & got)} missing={len(missing)} extra_pass={len(got-want)}")
for m in missing[:20]: print("  MISSING", m)
sys.exit(1 if missing else 0)
P
rc=$?
rm -rf "$OUT"
exit $rc
