#!/bin/bash
# validates MANIFEST.json and all evidence files against the schemas (tooling venv has jsonschema)
cd "$(dirname "$0")/.." || exit 2
python3-vt - <<'P'
import json, glob, jsonschema, sys
ok = True
try:
    jsonschema.validate(json.load(open('MANIFEST.json')), json.load(open('/root/.vp/MANIFEST.schema.json')))
    print("MANIFEST.json valid")
except Exception as e:
    ok = False; print("MANIFEST invalid:", e)
sch = json.load(open('/root/.vp/EVIDENCE.schema.json'))
for f in sorted(glob.glob('evidence/*.json')):
    try:
        jsonschema.validate(json.load(open(f)), sch)
    except Exception as e:
        ok = False; print(f, "INVALID:", str(e)[:300])
print("evidence files checked:", len(glob.glob('evidence/*.json')))
sys.exit(0 if ok else 1)
P
