"""List reasons of clean rejections for a property strategy. usage: tools/rejects.py c01 [seed] [n]"""
import sys, os, collections, warnings, importlib, json
warnings.filterwarnings("ignore"); os.environ["TQDM_DISABLE"]="1"
sys.path.insert(0, "/verif")
from pbt import core
from hypothesis import given, settings, HealthCheck, Phase, seed
mod = importlib.import_module("pbt."+sys.argv[1])
core.install_log_capture()
stats = collections.Counter(); n=[0]; INC=[]; VIO=[]
@seed(int(sys.argv[2]) if len(sys.argv)>2 else 1)
@settings(max_examples=int(sys.argv[3]) if len(sys.argv)>3 else 500, database=None, deadline=None, suppress_health_check=list(HealthCheck), phases=[Phase.generate])
@given(mod.strategy("quick"))
def t(spec):
    n[0]+=1
    ctx = core.Ctx(core.WORK/"rej", n[0])
    core.reset_global_state(ctx, spec.get("rng",0) if isinstance(spec, dict) else 0)
    import faulthandler
    if os.environ.get("FH"):
        faulthandler.dump_traceback_later(int(os.environ["FH"]), exit=True)
        json.dump(spec, open("/verif/.work/current.json","w"))
    try:
        mod.check(spec, ctx)
    except core.Reject as e:
        stats[str(e)[:150]]+=1
    except core.Violation as e:
        stats["VIOLATION "+str(e)[:150]]+=1
        VIO.append({"bucket": e.bucket, "message": str(e), "count": 1, "spec": spec})
    except core.Inconclusive:
        stats["inconclusive"]+=1
        INC.append(spec)
    finally:
        core.finish_case(ctx)
t()
print(n[0], "cases")
for k,v in stats.most_common(): print(v,k)

import json
if INC:
    json.dump(INC, open("/verif/.work/inconclusive.json","w"))
    print("inconclusive specs saved to .work/inconclusive.json")

if VIO:
    json.dump(VIO, open("/verif/.work/violations.json","w"))
    print("violating specs saved to .work/violations.json")
