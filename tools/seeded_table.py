"""prints the table of seeded regressions from seeded/*/meta.json"""
import json, glob
print("| id | property | change | needs | caught by | history |")
print("|---|---|---|---|---|---|")
for f in sorted(glob.glob("seeded/*/meta.json")):
    m = json.load(open(f)); d = f.split("/")[1]
    print(f"| {d} | {m['property']} | {m['change']} | {m['needs_to_manifest']} | {', '.join(m['caught_by']) or 'none'} | {m['history']} |")
