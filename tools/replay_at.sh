#!/bin/bash
# usage: tools/replay_at.sh <commit> <PID> <replay.json> [more PID replay pairs...]
# Replays inputs against a scratch worktree of /repo at <commit> (PYTHONPATH override), then removes it.
commit=$1; shift
WT=$(mktemp -d /var/tmp/wt.XXXXXX); rmdir $WT
git -C /repo worktree add -q --detach $WT $commit || exit 2
cd /verif
while [ $# -gt 1 ]; do
  pid=$1; rp=$2; shift 2
  out=$(PYTHONHASHSEED=0 TQDM_DISABLE=1 PYTHONDONTWRITEBYTECODE=1 PYTHONPATH=$WT:/verif /venv/bin/python -m pbt.run $pid --replay $rp 2>&1 | grep -E "VIOLATION|held|HARNESS" | tail -1)
  echo "$commit $pid $rp => $out"
done
git -C /repo worktree remove --force $WT
