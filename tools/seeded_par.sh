#!/bin/bash
# like tools/seeded_run.sh, N at a time (default 4): tools/seeded_par.sh [N] > table
cd "$(dirname "$0")/.." || exit 2
one() {
  d=$1
  pids=$(/venv/bin/python -c "import json;m=json.load(open('$d/meta.json'));print(' '.join(m['caught_by'] or [m['property']]))")
  out=$(tools/check_at.sh $d/patch.diff $pids 2>&1)
  n=$(echo "$out" | grep -c "^VIOLATION")
  if [ "$n" -gt 0 ]; then echo "$(basename $d): caught ($n violation lines; $pids)"; else echo "$(basename $d): MISSED ($pids) $(echo "$out" | tail -1 | cut -c1-120)"; fi
}
export -f one
ls -d seeded/*/ | sed 's#/$##' | xargs -P ${1:-4} -I{} bash -c 'one {}'
