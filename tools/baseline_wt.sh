#!/bin/bash
# usage: tools/baseline_wt.sh <worktree>   - runs the repository test-suite of that tree and compares with the
# list of tests that pass on the pristine tree. Prints "missing=0" when no previously passing test fails.
REPO=${1:?worktree}
OUT=$(mktemp -d /var/tmp/bl.XXXXXX)
cd "$REPO" || exit 2
PYTHONPATH=$REPO /venv/bin/python -m pytest -q -p no:cacheprovider --timeout=900 --continue-on-collection-errors -n 4 --junitxml=$OUT/r.xml > $OUT/log 2>&1
/venv/bin/python - "$OUT/r.xml" <<'P'
import sys, json, xml.etree.ElementTree as ET
bl = json.load(open('/root/.vp/BASELINE.json'))
want = set(bl['stable_pass'])
got = set()
for tc in ET.parse(sys.argv[1]).getroot().iter('testcase'):
    if not any(ch.tag in ('failure','error','skipped') for ch in tc):
        got.add(tc.get('classname') + '::' + tc.get('name'))
missing = sorted(want - got)
print(f"baseline: stable_pass={len(want)} passing_now={len(want & got)} missing={len(missing)}")
for m in missing[:20]: print("  MISSING", m)
sys.exit(1 if missing else 0)
P
rc=$?
rm -rf "$OUT"
exit $rc
