#!/bin/bash
# runs every seeded regression against the check(s) named in its meta.json (quick tier) and prints caught / MISSED
cd "$(dirname "$0")/.." || exit 2
for d in seeded/*/; do
  d=${d%/}; [ -f $d/meta.json ] || continue
  pids=$(/venv/bin/python -c "import json;print(' '.join(json.load(open('$d/meta.json'))['caught_by'] or [json.load(open('$d/meta.json'))['property']]))")
  out=$(tools/check_at.sh $d/patch.diff $pids 2>&1)
  n=$(echo "$out" | grep -c "^VIOLATION")
  if [ "$n" -gt 0 ]; then echo "$(basename $d): caught ($n violation lines; $pids)"; else echo "$(basename $d): MISSED ($pids)"; echo "$out" | tail -2; fi
done
