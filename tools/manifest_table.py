register("C11", "exploration",
         "Round trip on generated inputs: for every generated force field / residue graph that gen_params accepts, the written .itp is compared (independent reader) with the molecule that was built, re-read with Topology.from_gmx_topfile and MetaMolecule.from_itp, and the recovered residue graph is compared with the requested one. Random search, so absence of violations holds for the explored cases only.",
         "independent .itp reader (pbt/itp.py); installed vermouth/networkx versions; generator bounds (<=8 residues, <=3 blocks, <=5 atoms)",
         "Hypothesis-generated inputs + round-trip / differential oracle", "DESIGN.md 4/C11")
register("C01", "exploration",
         "Generated force fields x residue graphs through gen_params, compared field by field with reference model R1 (atoms table in resid order, charge-group offset constant per block instance, interaction multiset = block instances + brute-force link matches + modifications). Flavours: no links, links, multi-residue (from_itp) blocks, terminal modifications. Random search: holds for the explored cases only.",
         "reference model pbt/model.py and .itp reader pbt/itp.py are trusted; IOError/OSError = clean rejection; bounds <=8 residues, <=3(+2) blocks, <=5 atoms per block",
         "Hypothesis-generated inputs + reference-model oracle", "DESIGN.md 4/C01")
register("C02", "exploration",
         "Generated link definitions x residue graphs; a brute-force matcher enumerates every injective assignment of link residue orders to residues and decides per the written link semantics (induced residue pattern, edge labels, relative order table, unique atom selection, non-edges, patterns, last-definition-wins, dangling .itp interactions as +n links); the written interactions, replaced attributes and inter-residue edges of the built molecule must equal the prediction in both directions.",
         "pbt/model.py trusted; outcomes that depend on the application order of matches are counted and not asserted",
         "Hypothesis-generated inputs + brute-force reference matcher", "DESIGN.md 4/C02")
register("C10", "exploration",
         "For every requested residue-graph edge the atom-level edges of the built molecule between the two residues are recounted independently and compared with the captured missing-link warnings (exactly one of the two must hold; warnings only for edges, with the right residue ids/names). gen_coords half: disconnected molecules must be refused.",
         "captured log records are the warning channel; bounds as C02",
         "Hypothesis-generated inputs + independent recount (invariant oracle)", "DESIGN.md 4/C10")
register("C14", "exploration",
         "From the written .itp alone: all atom pairs are classified effective (molecule nrexcl or listed exclusion) vs required (bond-graph distance within the larger block nrexcl of the two atoms, or explicit exclusion in a block/applied link) and must agree; uniform nrexcl must be kept without invented exclusions.",
         "bond graph = bonds+constraints of the written file; explicit exclusions taken from the reference model; known finding F22 excluded by construction in 5/6 of the draws",
         "Hypothesis-generated inputs + all-pairs reference predicate", "DESIGN.md 4/C14")
register("C12", "exploration",
         "Six kinds of generated sequence input (-seq, .txt, .fasta, .ig, node-link .json, gen_seq specifications incl. connects/termini/labels/from_file) are read with the repository's readers and compared with an independent sequence model (translation tables, terminal suffixes, resids, path/tree/connect edges, circular label); gen_seq output is checked both as JSON text and after reading it back with gen_params' reader.",
         "0-based connect/sequence ids (as pinned by the repository's tests); generator bounds (<=60 letters, <=4 macros of <=40 residues)",
         "Hypothesis-generated inputs + reference-model and round-trip oracle", "DESIGN.md 4/C12")
register("C13", "exploration",
         "Metamorphic: each generated gen_params case is run again after a generated relabelling / reordering / file-split / interleaved unrelated runs; atoms table, interaction multiset and nrexcl must be identical, and a repeated run must reproduce the file byte for byte apart from the header line.",
         "order-dependent cases flagged by the reference model are skipped (counted); conflicting links are not permuted; file splitting is only exercised without .itp inputs (see finding F22)",
         "Hypothesis-generated inputs + metamorphic relation", "DESIGN.md 4/C13")
register("C19", "exploration",
         "complement_dsDNA on generated linear/circular strands (graph, .ig, gen_params -dsdna routes) against an independent Watson-Crick model: 2n residues, first strand unchanged, mirrored complement with swapped terminal roles, copied edge labels, no bridging edges, circular closure, involution, unknown names rejected.",
         "n <= 120; KeyError/IOError both accepted as rejection",
         "Hypothesis-generated inputs + reference-model oracle + involution", "DESIGN.md 4/C19")
register("C16", "exploration",
         "Generated operation histories (add/remove/concatenate/re-add/queries, incl. emptying a tree and opening a second tree above 5000 positions) over the real NonBondEngine, compared after every step with a dict model: positions, brute-force minimum-image 12-6 force (analytic and numerical gradient), internal index views, minimum-image distance laws.",
         "model written from the statement; float tolerances 1e-9 relative (1e-4 for the numerical gradient); <=40 steps, <=24 residues (+5001 dummies in 5% of the histories)",
         "Hypothesis-generated operation sequences + model-based oracle", "DESIGN.md 4/C16")
register("C17", "fault_enumeration",
         "Failure schedules injected into the placement step of the real random walk: all bit strings up to length 9 (quick) / 13 (thorough) x 14 residue-graph shapes with 0-3 supplied residues x rewind depths 1-4 at the single-molecule layer (bounded exhaustive), plus generated schedules through the real _compose_system/_handle_random_walk for 1-3 molecules. Invariants over the engine history are checked at every step.",
         "successful placements are the repository's own in an empty 30 nm box; enumeration is complete only for the stated bound and shapes",
         "bounded enumeration of failure schedules + Hypothesis-generated schedules, history-invariant oracle", "DESIGN.md 4/C17")
register("C09", "exploration",
         "Generated topologies (type tables with exact/reversed/wildcard entries and multiple terms, parameter-less interactions in both listing directions, 1-4 instances, #define macros, OPLS bond types, C6/C12 or sigma/epsilon atom types, nonbond_params subsets) are preprocessed and every instance is compared with an independent resolver (set of tied-best entries); the non-bonded table is checked for override precedence, self terms and C6/C12 conversion. The 16 masks x listing direction x key direction x competing-exact grid is enumerated in every run.",
         "resolver R3 in pbt/c09.py; comb-rule formula assignment not asserted; 4-6 atom chain molecules",
         "Hypothesis-generated inputs + enumerated mask grid, reference-resolver oracle", "DESIGN.md 4/C09")
register("C08", "exploration",
         "Generated include trees (nested directories, repeated and conditional includes with #else, #error, #define before/after use, random trivia, absolute/relative main path) are read with Topology.from_gmx_topfile and compared with the reading of the single file produced by an independent flattener; molecule list expansion, instance independence and the #error verdict are checked against the spec.",
         "flattener R2 in pbt/c08.py; one-level conditionals, defines outside conditionals, includes between whole blocks; known finding F13 excluded by construction in 7/8 of the draws",
         "Hypothesis-generated inputs + differential oracle against an independent flattener", "DESIGN.md 4/C08")
register("C03", "exploration",
         "Generated topologies x option sets (-box/-dens/-c/-mc/-grid/-gs/-sf/-mf/-nr/-start/-res) x RNG seeds through gen_coords; the written .gro is parsed independently: atom count and per-line residue number/name/atom name equal the expansion of [molecules], all coordinates finite, box line = structure box > -box > cubic density box.",
         "independent .gro reader; dilute boxes; time-outs (30 s per case) are inconclusive, never violations",
         "Hypothesis-generated inputs + reference expansion oracle", "DESIGN.md 4/C03")
register("C04", "exploration",
         "C03 systems with a supplied prefix of the residue stream (-c atoms or -mc centres), -res, -ign and injected placement failures: supplied atoms must keep their coordinates (file and captured topology), centre-only residues must be backmapped around the supplied centre, exactly the residues absent from the input may receive an engine placement, supplied engine rows must be intact after every injected failure.",
         "-res residues are absent from the input structure; ignored types fully supplied; tolerance 5e-4 nm on the 3-decimal file, 1e-9 on captured positions",
         "Hypothesis-generated inputs and fault patterns + preservation oracle", "DESIGN.md 4/C04")
register("C05", "exploration",
         "Every NonBondEngine.add_positions call made during gen_coords is intercepted and judged against the engine state at that moment with an independent minimum-image model: inside the box, one step (step factor x mean size) from an already positioned graph neighbour or on a start-grid point, nothing within 0.1 nm, brute-force soft-sphere force from non-neighbours within the cut-off not above the limit.",
         "sizes taken from the captured Topology.volumes; boxes >= 3 nm; time-outs inconclusive",
         "Hypothesis-generated inputs + interposed history invariant with reference force model", "DESIGN.md 4/C05")
register("C06", "exploration",
         "From the topology captured after backmapping every backmapped residue of generated systems (user and generated templates, factors 0.2-1.0, full and backmap-only runs) is tested: centre of geometry equals the residue position, pairwise distances equal factor x template distances, and a Kabsch fit finds a proper rotation mapping each atom name's template vector onto that atom (residual <= 1e-6). rotate_xyz is tested for orthogonality and determinant +1.",
         "templates read from the captured MetaMolecule.templates; tolerances 1e-6 / 1e-8 nm",
         "Hypothesis-generated inputs + geometric invariant oracle (Kabsch)", "DESIGN.md 4/C06")
register("C07", "exploration",
         "Generated build files (sphere/cylinder/rectangle in|out, rw_restriction cones, distance_restraints, persistence_length, -cycles rings) on generated systems; residue positions captured after BuildSystem are tested with independent predicates: geometry per selected generated residue, cone on the minimum-image step from the growth predecessor, restrained pair inside [d-tol, d+tol+average pair size], ring closure on the unused ring edge, sampled end-to-end distances inside [one step, contour length].",
         "looser of tree/path average accepted as 'average pair size'; satisfiable regions by construction; time-outs (15 s) inconclusive",
         "Hypothesis-generated inputs + reference predicates", "DESIGN.md 4/C07")
register("C15", "exploration",
         "Generated residue definitions (all virtual-site kinds, angles, impropers, rings/stars/chains), name reuse with different content and build files with templates/volumes are run through the same pipeline gen_coords uses up to GenerateTemplates; checked: template sharing vs atom-name labelled graphs, exact atom names, centring, virtual sites against an independent implementation of the GROMACS constructions, every optimiser success verdict against independent measurements, user templates/volumes unchanged, positive sizes; plus a pure-function layer for construct_vs (value and rigid-motion equivariance).",
         "virtual_sitesn with function 1 only; resname-keyed build entries are not generated for names shared by two different residues; 40 s time-out inconclusive",
         "Hypothesis-generated inputs + reference-implementation and invariant oracles", "DESIGN.md 4/C15")
register("C18", "exploration",
         "Four generated case kinds on systems with repeated molecule names, each through a full gen_coords run: build files with overlapping/adjacent [ molecule ] ranges (also covering other names) compared with an independent name/index/resname/resid selection on the node attributes; -start specifications with omitted fields (start placement must hit the first matching residue, other molecules unchanged); -lig (ligand one minimum-image step from the host residue, hosts and molecule list restored); -split (fragments partition the atoms, new residue names, .gro order).",
         "a [ molecule ] range covering other names must leave those molecules untouched; time-outs inconclusive",
         "Hypothesis-generated inputs + independent selection oracle", "DESIGN.md 4/C18")
register("C20", "fault_enumeration",
         "An exception is injected before and after every stage function of gen_params, gen_coords and gen_seq (and after k written lines inside the .itp/.gro writers), for 1-3 exception types, with the output path absent / present / present with older backups, on two inputs per program, plus naturally failing inputs and fault-free runs; the output directory is hashed before and after. Enumerated completely for the stage lists in pbt/c20.py.",
         "stage lists are the call sites of the three top-level functions at this commit; the deferred-writer singleton is cleared per case; temp files are kept out of the hashed directory",
         "exhaustive enumeration of crash points x prior states, before/after directory-hash oracle", "DESIGN.md 4/C20")
