register("C11", "exploration",
         "Round trip on generated inputs: for every generated force field / residue graph that gen_params accepts, the written .itp is compared (independent reader) with the molecule that was built, re-read with Topology.from_gmx_topfile and MetaMolecule.from_itp, and the recovered residue graph is compared with the requested one. Random search, so absence of violations holds for the explored cases only.",
         "independent .itp reader (pbt/itp.py); installed vermouth/networkx versions; generator bounds (<=8 residues, <=3 blocks, <=5 atoms)",
         "Hypothesis-generated inputs + round-trip / differential oracle", "DESIGN.md 4/C11")
