#!/bin/bash
# usage: tools/confirm_seeded.sh <seeded dir> - confirms a seeded regression in a scratch worktree:
#   demo passes on the pristine tree, patch applies, baseline suite still passes, demo fails with the patch.
d=$(readlink -f $1)
WT=$(mktemp -d /var/tmp/wt.XXXXXX); rmdir $WT
BASE=$(/venv/bin/python -c "import json,sys; print(json.load(open(sys.argv[1]+'/meta.json')).get('base_commit','HEAD'))" $d)
git -C /repo worktree add -q --detach $WT $BASE || exit 2
run_demo() { (cd $WT && PYTHONPATH=$WT TQDM_DISABLE=1 timeout 600 /venv/bin/python $d/demo.py >/dev/null 2>&1; echo $?); }
clean=$(run_demo)
git -C $WT apply $d/patch.diff || { echo "patch does not apply"; git -C /repo worktree remove --force $WT; exit 2; }
base=$($(dirname $0)/baseline_wt.sh $WT | head -1)
mut=$(run_demo)
echo "$(basename $d): demo_on_pristine=$clean demo_with_patch=$mut $base"
git -C /repo worktree remove --force $WT
