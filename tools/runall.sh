#!/bin/bash
# usage: tools/runall.sh "1 2 3" [tier]   - runs every registered check at the given seeds, prints one line each
cd "$(dirname "$0")/.." || exit 2
seeds=${1:-1}; tier=${2:-quick}
for s in $seeds; do
  for c in C01 C02 C03 C04 C05 C06 C07 C08 C09 C10 C11 C12 C13 C14 C15 C16 C17 C18 C19 C20; do
    out=$(VERIF_SEED=$s ./check $c --tier $tier 2>&1); rc=$?
    echo "rc=$rc $(echo "$out" | grep -E "tier=" | tail -1) $(echo "$out" | grep -c VIOLATION) violation-lines"
  done
done
