import sys, json, random
sys.path.insert(0, "/verif")
from pbt import c08
spec = json.load(open(sys.argv[1]))
if "spec" in spec and "bucket" in spec:
    print("BUCKET", spec["bucket"], "\nMSG", spec["message"]); spec = spec["spec"]
rnd = random.Random(spec["trivia_seed"])
flat, err, info = c08.flatten(spec)
tail = ["[ system ]", "generated system", "[ molecules ]"] + [f"{n} {c}" for n, c in spec["molecules"]]
for p in spec["paths"]:
    print("=====", p); print(c08.render_file(spec, p, rnd, tail))
print("===== FLAT (err=%r)" % err); print("\n".join(flat+tail)); print(info)
