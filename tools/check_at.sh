#!/bin/bash
# usage: tools/check_at.sh <commit|patchfile> <PID> [PID...]   (quick tier against a scratch worktree of /repo)
# With a patch file the patch is applied on top of /repo HEAD (or the base_commit of the meta.json next to it).
what=$1; shift
WT=$(mktemp -d /var/tmp/wt.XXXXXX); rmdir $WT
OUT=$(mktemp -d /var/tmp/out.XXXXXX)
if [ -f "$what" ]; then
  # a seeded patch may name the /repo commit it was written against (meta.json: base_commit), e.g. when a later
  # fix: commit rewrote the lines it changes
  BASE=$(/venv/bin/python -c "import json,sys,os; m=os.path.join(os.path.dirname(os.path.realpath(sys.argv[1])),'meta.json'); print(json.load(open(m)).get('base_commit','HEAD') if os.path.exists(m) else 'HEAD')" "$what")
  git -C /repo worktree add -q --detach $WT $BASE || exit 2
  git -C $WT apply "$(readlink -f $what)" || { echo "patch does not apply"; git -C /repo worktree remove --force $WT; exit 2; }
else
  git -C /repo worktree add -q --detach $WT $what || exit 2
fi
cd /verif
for pid in "$@"; do
  VERIF_OUT=$OUT PYTHONHASHSEED=0 TQDM_DISABLE=1 PYTHONDONTWRITEBYTECODE=1 OMP_NUM_THREADS=1 PYTHONPATH=$WT:/verif /venv/bin/python -m pbt.run $pid --tier ${TIER:-quick} 2>&1 | grep -E "violation bucket|VIOLATION|tier=|HARNESS" | cut -c1-220
done
git -C /repo worktree remove --force $WT
rm -rf $OUT
