"""Regenerates MANIFEST.json from the table below (keeps it valid at all times)."""
import json
from pathlib import Path

ROOT = Path(__file__).resolve().parent.parent

CHECKS = {}   # filled by register()
NOT_APPLICABLE = {}


def register(pid, level, text, note, technique, design_ref):
    CHECKS[pid] = {
        "property_id": pid,
        "quick_cmd": f"./check {pid} --tier quick",
        "thorough_cmd": f"./check {pid} --tier thorough",
        "evidence_file": f"evidence/{pid}.json",
        "replay_cmd_template": f"./check {pid} --replay {{path}}",
        "engine": "pbt",
        "level_claimed": {"category": level, "text": text, "design_ref": design_ref},
        "level_note": note,
        "technique": technique,
    }


exec((ROOT / "tools" / "manifest_table.py").read_text())

props = [json.loads(l)["id"] for l in (ROOT / "properties.jsonl").read_text().splitlines() if l.strip()]
manifest = {
    "version": 1,
    "setup_cmd": "/venv/bin/pip install --no-index --find-links /opt/veriftools/wheels hypothesis >/dev/null 2>&1; /venv/bin/python -c 'import hypothesis, polyply'",
    "hooks": {
        "guard": "POLYPLY_VERIF",
        "enable": "no source hooks: the harness wraps attributes at run time (export POLYPLY_VERIF=1 is set by ./check for documentation only)",
        "baseline_off_cmd": "cd /repo && env -u POLYPLY_VERIF /venv/bin/python -m pytest -ra -q -p no:cacheprovider --timeout=900 --continue-on-collection-errors",
        "source_commits": [],
        "add_only": True,
    },
    "engines": [{"name": "pbt", "path": "pbt/", "serves_properties": sorted(CHECKS),
                 "kind_free_text": "Hypothesis 6.168 strategies + bounded enumeration, 16 forked shards, explicit oracles (reference models, round trips, metamorphic relations, history invariants)"}],
    "checks": [CHECKS[p] for p in props if p in CHECKS],
    "not_applicable": [{"property_id": p, "reason": NOT_APPLICABLE.get(p, "check not built yet in this round; see DESIGN.md section 4 for the plan")}
                       for p in props if p not in CHECKS],
    "notes": "See DESIGN.md. Exit codes: 0 held, 1 VIOLATION line printed, 2 harness error. known_findings.json lists recorded and fixed defects.",
}
(ROOT / "MANIFEST.json").write_text(json.dumps(manifest, indent=1) + "\n")
print("checks:", sorted(CHECKS), "not_applicable:", [p for p in props if p not in CHECKS])
