#!/bin/bash
# usage: tools/round_eval_par.sh <round letter> [N]  - tools/round_eval.sh for all 20 properties, N at a time (default 4)
r=$1
seq -f "C%02g" 1 20 | xargs -P ${2:-4} -I{} $(dirname $0)/round_eval.sh $r {}
