#!/bin/bash
# usage: tools/round_eval.sh <round letter> [PID...]  - runs the owning check against every finished /tmp/mut/<PID><letter>/mutation.patch
r=$1; shift
ids=${@:-$(seq -f "C%02g" 1 20)}
for pid in $ids; do
  p=/tmp/mut/${pid}${r}/mutation.patch
  [ -f $p ] && [ -f /tmp/mut/${pid}${r}/NOTES.md ] || { echo "$pid$r: not finished"; continue; }
  out=$($(dirname $0)/check_at.sh $p $pid 2>&1)
  n=$(echo "$out" | grep -c "^violation bucket")
  first=$(echo "$out" | grep "^violation bucket" | head -1 | cut -c1-150)
  if [ "$n" -gt 0 ]; then echo "$pid$r: caught [$n] $first"; else echo "$pid$r: MISSED  $(echo "$out" | tail -1 | cut -c1-120)"; fi
done
